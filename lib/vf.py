"""Shared machinery for the /verif checks: TLC runner, harness builder/runner, evidence writer,
known-findings handling.  Exit codes of a check: 0 = held (known findings are printed),
1 = VIOLATION line printed, 2 = tool failure / timeout (never reported as a violation)."""
import hashlib
import json
import os
import re
import shutil
import subprocess
import sys
import time

ROOT = os.path.dirname(os.path.dirname(os.path.abspath(__file__)))
SPEC = os.path.join(ROOT, "spec")
HARNESS = os.path.join(ROOT, "harness")
WORK = os.path.join(ROOT, "work")
EVID = os.path.join(ROOT, "evidence")
REPLAYS = os.path.join(EVID, "replays")
JAR = "/opt/veriftools/tla/tla2tools.jar"
DEPS = "/opt/veriftools/tla/CommunityModules-deps.jar"

HASHES = ["keccak_160_lsb", "keccak_248_lsb", "blake2s_160_lsb", "blake2s_248_lsb"]
STONES = ["stone5", "stone6"]
DEFAULT_BUILD = "keccak_160_lsb-stone5"
SECOND_BUILD = "blake2s_248_lsb-stone6"
ALL_BUILDS = [f"{h}-{s}" for h in HASHES for s in STONES]


class ToolError(Exception):
    pass


def log(*a):
    print(*a, file=sys.stderr, flush=True)


def seed():
    try:
        return int(os.environ.get("VERIF_SEED", "1"))
    except ValueError:
        return 1


# ------------------------------------------------------------------------------------------
# setup pieces (idempotent)
# ------------------------------------------------------------------------------------------
def ensure_vendor():
    if not os.path.exists(os.path.join(ROOT, "vendor", ".complete")):
        r = subprocess.run([os.path.join(ROOT, "scripts", "mkvendor.sh")], capture_output=True, text=True)
        if r.returncode != 0:
            raise ToolError("mkvendor failed: " + r.stdout + r.stderr)


def ensure_bigfield():
    cls = os.path.join(SPEC, "BigField.class")
    src = os.path.join(SPEC, "BigField.java")
    if (not os.path.exists(cls)) or os.path.getmtime(cls) < os.path.getmtime(src):
        r = subprocess.run(["javac", "-cp", JAR, "BigField.java"], cwd=SPEC, capture_output=True, text=True)
        if r.returncode != 0:
            raise ToolError("javac BigField failed: " + r.stdout + r.stderr)


def build(name=DEFAULT_BUILD):
    """Build the harness binary for a hash-stone combination from /repo's current working tree
    (path dependencies; hooks enabled by rustflags in harness/.cargo/config.toml)."""
    ensure_vendor()
    h, s = name.split("-")
    tdir = os.path.join(HARNESS, "target", name)
    cmd = ["cargo", "build", "--release", "--offline", "--features", f"{h},{s}", "--target-dir", tdir]
    t0 = time.time()
    env = dict(os.environ)
    env["CARGO_NET_OFFLINE"] = "true"
    env.setdefault("RUST_MIN_STACK", "67108864")
    r = subprocess.run(cmd, cwd=HARNESS, capture_output=True, text=True, env=env)
    if r.returncode != 0:
        raise ToolError(f"cargo build failed for {name}:\n" + r.stderr[-6000:])
    log(f"[build {name}] {time.time() - t0:.1f}s")
    return os.path.join(tdir, "release", "vh")


def vh(binpath, args, stdin=None, timeout=3600, env=None, check=True):
    e = dict(os.environ)
    e.setdefault("VERIF_SEED", str(seed()))
    if env:
        e.update(env)
    try:
        r = subprocess.run([binpath] + [str(a) for a in args], input=stdin, capture_output=True, text=True,
                           timeout=timeout, env=e)
    except subprocess.TimeoutExpired:
        raise ToolError(f"harness timeout: {args}")
    if check and r.returncode != 0:
        raise ToolError(f"harness failed ({r.returncode}) {args}:\n{r.stderr[-4000:]}")
    return r


# ------------------------------------------------------------------------------------------
# TLC
# ------------------------------------------------------------------------------------------
class TLCResult:
    def __init__(self):
        self.ok = False
        self.out = ""
        self.generated = 0
        self.distinct = 0
        self.violated = []      # invariant / property names
        self.errors = []        # other error lines
        self.replays = []       # decoded JSON objects printed as <<"REPLAY", "...">>
        self.prints = []        # other PrintT lines
        self.coverage = {}      # action name -> (count, distinct)
        self.wall = 0.0
        self.timeout = False


def _unescape_tla_string(s):
    out = []
    i = 0
    while i < len(s):
        c = s[i]
        if c == "\\" and i + 1 < len(s):
            n = s[i + 1]
            out.append({"n": "\n", "t": "\t", "\"": "\"", "\\": "\\"}.get(n, n))
            i += 2
        else:
            out.append(c)
            i += 1
    return "".join(out)


_REPLAY_RE = re.compile(r'^<<"REPLAY", "(.*)">>$')


def tlc(module, cfg=None, env=None, workers=8, timeout=1200, simulate=None, depth=None, tlc_seed=None,
        coverage=True, heap="8g", dfs=False, tag=None, extra=None):
    """Run TLC on spec/<module>.tla with spec/<cfg>. Returns TLCResult; raises ToolError on parse/semantic
    errors or timeouts."""
    ensure_bigfield()
    cfg = cfg or (module + ".cfg")
    tag = tag or (module + "-" + os.path.splitext(os.path.basename(cfg))[0])
    meta = os.path.join(WORK, "tlc", tag + "-" + str(os.getpid()))
    shutil.rmtree(meta, ignore_errors=True)
    os.makedirs(meta, exist_ok=True)
    jopts = ["-XX:+UseParallelGC", "-Xss1g", f"-Xmx{heap}"]
    if dfs:
        jopts.append("-Dtlc2.tool.queue.IStateQueue=StateDeque")
    cmd = ["java"] + jopts + ["-cp", f"{JAR}:{DEPS}:{SPEC}", "tlc2.TLC", "-workers", str(workers), "-metadir", meta,
                              "-cleanup", "-noGenerateSpecTE", "-config", cfg]
    if coverage and not simulate:
        cmd += ["-coverage", "1"]
    if simulate:
        cmd += ["-simulate", f"num={simulate}"]
        if depth:
            cmd += ["-depth", str(depth)]
    if tlc_seed is not None:
        cmd += ["-seed", str(tlc_seed)]
    if extra:
        cmd += extra
    cmd.append(module + ".tla")
    e = dict(os.environ)
    e.pop("JAVA_TOOL_OPTIONS", None)
    if env:
        e.update({k: str(v) for k, v in env.items()})
    res = TLCResult()
    t0 = time.time()
    try:
        r = subprocess.run(["timeout", str(timeout)] + cmd, cwd=SPEC, capture_output=True, text=True, env=e)
    finally:
        shutil.rmtree(meta, ignore_errors=True)
    res.wall = time.time() - t0
    out = r.stdout + "\n" + r.stderr
    res.out = out
    if r.returncode == 124:
        res.timeout = True
        raise ToolError(f"TLC timeout after {timeout}s on {module}/{cfg}")
    for line in r.stdout.splitlines():
        m = _REPLAY_RE.match(line)
        if m:
            try:
                res.replays.append(json.loads(_unescape_tla_string(m.group(1))))
            except Exception as ex:
                raise ToolError(f"bad REPLAY line from TLC: {line[:300]} ({ex})")
            continue
        m = re.match(r"^Error: Invariant (\S+) is violated", line)
        if m:
            res.violated.append(m.group(1))
            continue
        m = re.match(r"^Error: Action property (\S+) is violated", line)
        if m:
            res.violated.append(m.group(1))
            continue
        m = re.match(r"^Error: Temporal properties were violated", line)
        if m:
            res.violated.append("TemporalProperty")
            continue
        if line.startswith("Error: Postcondition") or line.startswith("Error: The behavior up to this point") or line.startswith("Error: The following behavior"):
            continue
        if line.startswith("Error:") or "Assumption" in line and "is false" in line:
            res.errors.append(line)
            continue
        m = re.match(r"^(\d+) states generated, (\d+) distinct states found", line)
        if m:
            res.generated, res.distinct = int(m.group(1)), int(m.group(2))
            continue
        m = re.match(r"^<(\w+) line \d+, col \d+ to line \d+, col \d+ of module (\w+)>: (\d+):(\d+)", line)
        if m:
            name = m.group(1)
            c, d = int(m.group(3)), int(m.group(4))
            pc, pd = res.coverage.get(name, (0, 0))
            res.coverage[name] = (pc + c, pd + d)
            continue
        if line.startswith("<<") or line.startswith("\""):
            res.prints.append(line)
    if simulate:
        m = re.search(r"The number of states generated: (\d+)", out)
        if m:
            res.generated = int(m.group(1))
            res.distinct = res.distinct or res.generated
    completed = ("Model checking completed. No error has been found." in out) or (simulate and "Finished in" in out)
    postfail = re.search(r"Postcondition \S+ .*is false", out) is not None
    if postfail:
        res.violated.append("POSTCONDITION")
    res.ok = bool(completed) and not res.violated and not res.errors
    if not completed and not res.violated:
        # semantic / parse / evaluation error: tool failure unless caller wants to interpret it
        res.errors.append("TLC did not complete")
    return res


def tlc_must_run(res, what):
    """Raise ToolError if the TLC run failed for a reason other than a property violation."""
    if res.errors and not res.violated:
        tail = "\n".join(res.out.splitlines()[-40:])
        raise ToolError(f"TLC error in {what}:\n{tail}")


# ------------------------------------------------------------------------------------------
# evidence, violations, known findings
# ------------------------------------------------------------------------------------------
def load_known():
    p = os.path.join(ROOT, "known_findings.json")
    if not os.path.exists(p):
        return {"findings": [], "fixed": []}
    with open(p) as f:
        return json.load(f)


class Check:
    def __init__(self, pid, tier, level="model_checking"):
        self.pid = pid
        self.tier = tier
        self.level = level
        self.t0 = time.time()
        self.states = 0
        self.transitions = 0
        self.traces = 0
        self.evaluations = 0
        self.samples = []
        self.nontrivial = set()
        self.violations = []     # (key, what, replay_path)
        self.known_hits = []
        self.extra = {}
        self.assumptions = []
        self.rule = ""
        self.coverage_actions = {}
        self.exhaustive = None
        self.known = [k for k in load_known().get("findings", []) if k.get("property") == pid]
        os.makedirs(os.path.join(REPLAYS, pid), exist_ok=True)

    # -- accounting
    def add_tlc(self, res, name=None):
        self.states += res.distinct
        self.transitions += res.generated
        for k, (c, d) in res.coverage.items():
            pc, pd = self.coverage_actions.get(k, (0, 0))
            self.coverage_actions[k] = (pc + c, pd + d)
        if name:
            self.extra.setdefault("tlc_runs", []).append(
                {"run": name, "generated": res.generated, "distinct": res.distinct, "wall_s": round(res.wall, 1)})

    def sample(self, s, limit=6):
        if len(self.samples) < limit:
            self.samples.append(s)

    def case(self, fingerprint, nontrivial=True):
        self.evaluations += 1
        if nontrivial:
            if not isinstance(fingerprint, str):
                fingerprint = json.dumps(fingerprint, sort_keys=True)
            self.nontrivial.add(hashlib.sha1(fingerprint.encode()).hexdigest()[:16])

    # -- violations
    def replay_file(self, name, content):
        p = os.path.join(REPLAYS, self.pid, name)
        with open(p, "w") as f:
            if isinstance(content, str):
                f.write(content)
            else:
                json.dump(content, f, indent=1)
        return p

    def violation(self, key, what, replay_content, name=None):
        """Report a violation identified by `key` (matched against known_findings.json)."""
        for k in self.known:
            if k.get("key") == key:
                if key not in [h[0] for h in self.known_hits]:
                    self.known_hits.append((key, k.get("what", what)))
                return False
        if len(self.violations) >= 50 or key in [k for k, _, _ in self.violations]:
            return True
        name = name or (re.sub(r"[^A-Za-z0-9_.-]", "_", key)[:80] + ".json")
        p = self.replay_file(name, replay_content)
        self.violations.append((key, what, p))
        return True

    def require_tlc_ok(self, res, what, key_prefix=None):
        tlc_must_run(res, what)
        if res.violated:
            tail = "\n".join(res.out.splitlines()[-60:])
            for inv in res.violated:
                self.violation(f"{key_prefix or what}:{inv}", f"TLC: {inv} violated in {what}", {"what": what, "invariant": inv, "tlc_tail": tail})
            return False
        return True

    def require_coverage(self, res, actions, what):
        """Vacuity guard: every named action must have been taken at least once."""
        missing = [a for a in actions if res.coverage.get(a, (0, 0))[0] == 0]
        if missing:
            raise ToolError(f"vacuous TLC run {what}: actions never taken: {missing}")

    # -- finish
    def finish(self):
        wall = time.time() - self.t0
        cov = {
            "states": self.states,
            "transitions": self.transitions,
            "traces_validated_against_impl": self.traces,
            "evaluations": self.evaluations,
            "distinct_nontrivial": len(self.nontrivial),
            "rule": self.rule,
            "samples": self.samples if self.samples else [],
            "actions": {k: v[0] for k, v in sorted(self.coverage_actions.items())},
        }
        if self.exhaustive is not None:
            cov["exhaustive"] = self.exhaustive
        cov.update(self.extra)
        ev = {
            "property_id": self.pid,
            "tier": self.tier,
            "seed": seed(),
            "level": self.level,
            "coverage": cov,
            "assumptions": self.assumptions,
            "wall_s": round(wall, 2),
            "violations": len(self.violations),
            "known_findings_hit": [k for k, _ in self.known_hits],
        }
        os.makedirs(EVID, exist_ok=True)
        with open(os.path.join(EVID, self.pid + ".json"), "w") as f:
            json.dump(ev, f, indent=1)
        for key, what in self.known_hits:
            print(f"KNOWN-FINDING: property={self.pid} {what} [{key}]")
        for key, what, p in self.violations:
            print(f"VIOLATION property={self.pid} replay={p}  ({key}: {what})")
        sys.stdout.flush()
        if self.violations:
            return 1
        log(f"[{self.pid} {self.tier}] held: states={self.states} transitions={self.transitions} traces={self.traces} "
            f"cases={self.evaluations} nontrivial={len(self.nontrivial)} wall={wall:.1f}s")
        return 0


def read_ndjson(path):
    out = []
    with open(path) as f:
        for line in f:
            line = line.strip()
            if line:
                out.append(json.loads(line))
    return out


def write_ndjson(path, items):
    os.makedirs(os.path.dirname(path), exist_ok=True)
    with open(path, "w") as f:
        for it in items:
            f.write(json.dumps(it) + "\n")


def tmpdir(pid):
    d = os.path.join(WORK, pid + "-" + str(os.getpid()))
    shutil.rmtree(d, ignore_errors=True)
    os.makedirs(d, exist_ok=True)
    return d
