---------------------------- MODULE Trace_AirGlue ----------------------------
(* C15 at the real field: every recorded call of get_diluted_product and                    *)
(* get_public_memory_product_ratio is re-derived from the *defining* recurrence / product.   *)
EXTENDS TraceLib, StarkField
vars == <<l>>
Init == l = 1
RECURSIVE DiluteBN(_, _, _)
DiluteBN(j, spacing, i) == IF j = 0 THEN "0x0"
                           ELSE BNAdd(IF j % 2 = 1 THEN BNPow2(i * spacing) ELSE "0x0", DiluteBN(j \div 2, spacing, i + 1))
\* the Java primitive BNDilute is the same function (checked here on a sample at start-up); it keeps the 2^16-step recurrence affordable
ASSUME \A j \in 0..70, s \in {1, 2, 3, 5, 16, 40} : BNDilute(j, s) = DiluteBN(j, s, 0)
UReal(j, spacing) == FSub(FOf(BNDilute(j, spacing)), FOf(BNDilute(j - 1, spacing)))
\* The defining recurrence r_(j+1) = r_j * (1 + z*u_j) + alpha * u_j^2, evaluated in blocks of 256 steps: TLC evaluates recursion on
\* the Java stack and passes arguments lazily, and a single recursion 2^16 deep is quadratic (garbage collection scans the stack);
\* TLCEval forces the accumulator at every step.
RECURSIVE DilBlock(_, _, _, _, _, _)
DilBlock(r, j, jend, spacing, z, alpha) ==
    IF j = jend THEN r
    ELSE LET u == TLCEval(UReal(j, spacing)) IN
         DilBlock(TLCEval(FAdd(FMul(r, FAdd("0x1", FMul(z, u))), FMul(alpha, FMul(u, u)))), j + 1, jend, spacing, z, alpha)
RECURSIVE DilutedFrom(_, _, _, _, _, _)
DilutedFrom(r, j, last, spacing, z, alpha) ==
    IF j = last THEN r
    ELSE LET e == IF j + 256 < last THEN j + 256 ELSE last IN
         DilutedFrom(TLCEval(DilBlock(r, j, e, spacing, z, alpha)), e, last, spacing, z, alpha)
DilutedEv ==
    /\ Is("diluted") /\ Consume
    /\ Ev.out = DilutedFrom("0x1", 1, TLCEval(2^Ev.n_bits), TLCEval(Ev.spacing), TLCEval(Ev.z), TLCEval(Ev.alpha))

RECURSIVE CellProd(_, _, _, _)
CellProd(cells, i, z, alpha) ==
    IF i > Len(cells) THEN "0x1" ELSE FMul(FSub(z, FAdd(cells[i][1], FMul(alpha, cells[i][2]))), CellProd(cells, i + 1, z, alpha))
PubMemEv ==
    /\ Is("pubmem") /\ Consume
    /\ LET total == BNAdd(BNOf(Len(Ev.cells)), BNOf(Ev.pages_len))
           npad == BNSub(Ev.size, total)
           pad == FSub(Ev.z, FAdd(Ev.pad[1], FMul(Ev.alpha, Ev.pad[2])))
           denom == FMul(FMul(CellProd(Ev.cells, 1, Ev.z, Ev.alpha), FProdSeq(Ev.page_prods)), FPow(pad, npad))
       IN /\ BNLeq(total, Ev.size)
          /\ Ev.out = FMul(FPow(Ev.z, Ev.size), FInv(denom))
Next == DilutedEv \/ PubMemEv \/ (Is("reset") /\ Consume)
=============================================================================
