---------------------------- MODULE Trace_AirGlue ----------------------------
(* C15 at the real field: every recorded call of get_diluted_product and                    *)
(* get_public_memory_product_ratio is re-derived from the *defining* recurrence / product.   *)
EXTENDS TraceLib, StarkField
vars == <<l>>
Init == l = 1
RECURSIVE DiluteBN(_, _, _)
DiluteBN(j, spacing, i) == IF j = 0 THEN "0x0"
                           ELSE BNAdd(IF j % 2 = 1 THEN BNPow2(i * spacing) ELSE "0x0", DiluteBN(j \div 2, spacing, i + 1))
UReal(j, spacing) == FSub(FOf(DiluteBN(j, spacing, 0)), FOf(DiluteBN(j - 1, spacing, 0)))
RECURSIVE DilutedFrom(_, _, _, _, _, _)
DilutedFrom(r, j, last, spacing, z, alpha) ==
    IF j = last THEN r
    ELSE LET u == UReal(j, spacing) IN
         DilutedFrom(FAdd(FMul(r, FAdd("0x1", FMul(z, u))), FMul(alpha, FMul(u, u))), j + 1, last, spacing, z, alpha)
DilutedEv ==
    /\ Is("diluted") /\ Consume
    /\ Ev.out = DilutedFrom("0x1", 1, 2^Ev.n_bits, Ev.spacing, Ev.z, Ev.alpha)

RECURSIVE CellProd(_, _, _, _)
CellProd(cells, i, z, alpha) ==
    IF i > Len(cells) THEN "0x1" ELSE FMul(FSub(z, FAdd(cells[i][1], FMul(alpha, cells[i][2]))), CellProd(cells, i + 1, z, alpha))
PubMemEv ==
    /\ Is("pubmem") /\ Consume
    /\ LET total == BNAdd(BNOf(Len(Ev.cells)), BNOf(Ev.pages_len))
           npad == BNSub(Ev.size, total)
           pad == FSub(Ev.z, FAdd(Ev.pad[1], FMul(Ev.alpha, Ev.pad[2])))
           denom == FMul(FMul(CellProd(Ev.cells, 1, Ev.z, Ev.alpha), FProdSeq(Ev.page_prods)), FPow(pad, npad))
       IN /\ BNLeq(total, Ev.size)
          /\ Ev.out = FMul(FPow(Ev.z, Ev.size), FInv(denom))
Next == DilutedEv \/ PubMemEv \/ (Is("reset") /\ Consume)
=============================================================================
