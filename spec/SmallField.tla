----------------------------- MODULE SmallField -----------------------------
(* Prime field F_P with native TLC integers, P a small prime with 2-adicity >= 4       *)
(* (17: 4, 97: 5, 193: 6, 257: 8) and multiplicative generator Gen.                    *)
EXTENDS Naturals, Sequences
CONSTANTS P, Gen

SAdd(a, b) == (a + b) % P
SSub(a, b) == (a + P - b) % P
SMul(a, b) == (a * b) % P
RECURSIVE SPow(_, _)
SPow(a, e) == IF e = 0 THEN 1 % P ELSE IF e % 2 = 0 THEN SPow(SMul(a, a), e \div 2) ELSE SMul(a, SPow(a, e - 1))
SInv(a) == SPow(a, P - 2)
SRoot(k) == SPow(Gen, (P - 1) \div (2^k))      \* primitive 2^k-th root of unity
RECURSIVE BitRev(_, _)
BitRev(i, n) == IF n = 0 THEN 0 ELSE (i % 2) * 2^(n - 1) + BitRev(i \div 2, n - 1)
RECURSIVE SHorner(_, _, _)
SHorner(c, x, i) == IF i > Len(c) THEN 0 ELSE SAdd(c[i], SMul(x, SHorner(c, x, i + 1)))
SPolyEval(c, x) == SHorner(c, x, 1)
=============================================================================
