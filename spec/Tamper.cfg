CONSTANT Stone6 = FALSE
INIT Init
NEXT Next
INVARIANT TamperEvident
INVARIANT EveryVectorGuarded
INVARIANT Emit
CHECK_DEADLOCK FALSE
