-------------------------- MODULE TableCommitment --------------------------
(* table_decommit (crates/commitment/src/table/decommit.rs): a table of n_columns columns  *)
(* is committed as a Merkle tree over row hashes.  Cells are hashed in Montgomery form      *)
(* (value * R); a single-column row is used unhashed; otherwise the row hash is the         *)
(* verifier-friendly one iff nvf >= height + 1 ("the table is one more layer").             *)
EXTENDS Merkle

RowLeaf(cells, bottomFriendly) ==
  LET m == [i \in 1..Len(cells) |-> Mont(cells[i])] IN
  IF Len(cells) = 1 THEN m[1] ELSE IF bottomFriendly THEN PoseidonMany(m) ELSE MaskedMany(m)

BottomFriendly(height, nvf) == nvf >= height + 1

\* values: flat sequence, row-major, one row per query.
TableDecommit(ncols, qidx, values, auth, root, height, nvf) ==
  IF ncols * Len(qidx) # Len(values) THEN "length"
  ELSE Decommit(qidx,
                [i \in 1..Len(qidx) |-> RowLeaf(SubSeq(values, (i-1)*ncols + 1, i*ncols), BottomFriendly(height, nvf))],
                auth, root, height, nvf)

\* the committed object: rows[j] is the cell sequence of row j (0-based function)
TableLeaves(rows, height, nvf) == [j \in DOMAIN rows |-> RowLeaf(rows[j], BottomFriendly(height, nvf))]
TableRoot(rows, height, nvf) == RootOf(TableLeaves(rows, height, nvf), height, nvf)
TableAuth(rows, qs, height, nvf) == HonestAuth(TableLeaves(rows, height, nvf), qs, height, nvf)
=============================================================================
