INIT Init
NEXT Next
INVARIANT PatternOK
INVARIANT ThresholdIsLeadingZeros
INVARIANT AcceptIffEnoughZeros
INVARIANT ConfigRange
CHECK_DEADLOCK FALSE
