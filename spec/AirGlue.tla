------------------------------- MODULE AirGlue -------------------------------
(* Closed-form AIR boundary values (crates/air/src/diluted.rs, public_memory.rs), generic in *)
(* the field: the defining recurrence / product versus the closed forms the code evaluates.  *)
(*                                                                                           *)
(* Diluted check: Dilute(j) spreads the bits of j, bit i to position i*spacing;              *)
(*   u_j = Dilute(j) - Dilute(j-1);  r_1 = 1;  r_(j+1) = r_j * (1 + z*u_j) + alpha * u_j^2     *)
(*   final value = r_(2^n_bits).                                                             *)
(* Public memory: z^size / prod over all public cells of (z - (address + alpha*value)),       *)
(*   the cell list padded to `size` cells with the padding cell; continuous pages contribute  *)
(*   their page product.                                                                      *)
EXTENDS Naturals, Sequences
CONSTANTS Add(_, _), Sub(_, _), Mul(_, _), Inv(_), OfNat(_), Zero, One

RECURSIVE PowNat(_, _)
PowNat(a, n) == IF n = 0 THEN One ELSE IF n % 2 = 0 THEN PowNat(Mul(a, a), n \div 2) ELSE Mul(a, PowNat(a, n - 1))

RECURSIVE DiluteNat(_, _, _)
\* natural number whose bit i*spacing is bit i of j (small arguments only: native integers)
DiluteNat(j, spacing, i) == IF j = 0 THEN 0 ELSE (j % 2) * 2^(i * spacing) + DiluteNat(j \div 2, spacing, i + 1)
U(j, spacing) == Sub(OfNat(DiluteNat(j, spacing, 0)), OfNat(DiluteNat(j - 1, spacing, 0)))
RECURSIVE DilutedNaiveFrom(_, _, _, _, _, _)
\* r = r_j ; returns r_last
DilutedNaiveFrom(r, j, last, spacing, z, alpha) ==
    IF j = last THEN r
    ELSE LET u == U(j, spacing) IN
         DilutedNaiveFrom(Add(Mul(r, Add(One, Mul(z, u))), Mul(alpha, Mul(u, u))), j + 1, last, spacing, z, alpha)
DilutedNaive(nbits, spacing, z, alpha) == DilutedNaiveFrom(One, 1, 2^nbits, spacing, z, alpha)

\* the log-step doubling of diluted.rs
RECURSIVE DilutedClosedLoop(_, _, _, _, _, _, _, _, _)
DilutedClosedLoop(i, nbits, diffMul, diffX, x, p, q, z, alpha) ==
    IF i = nbits - 1 THEN Add(p, Mul(q, alpha))
    ELSE LET x1 == Add(x, diffX)
             xp == Mul(x1, p)
             y == Add(p, Mul(z, xp))
         IN DilutedClosedLoop(i + 1, nbits, diffMul, Mul(diffX, diffMul), x1, Mul(p, y), Add(Add(Mul(q, y), Mul(x1, xp)), q), z, alpha)
DilutedClosed(nbits, spacing, z, alpha) ==
    LET dm == OfNat(2^spacing) IN
    DilutedClosedLoop(0, nbits, dm, Sub(dm, OfNat(2)), One, Add(z, One), One, z, alpha)

\* public memory: cells = sequence of <<address, value>>
RECURSIVE CellProduct(_, _, _)
CellProduct(cells, z, alpha) ==
    IF cells = <<>> THEN One ELSE Mul(Sub(z, Add(Head(cells)[1], Mul(alpha, Head(cells)[2]))), CellProduct(Tail(cells), z, alpha))
RECURSIVE SeqProduct(_)
SeqProduct(s) == IF s = <<>> THEN One ELSE Mul(Head(s), SeqProduct(Tail(s)))
\* definition: pad the cell list explicitly
PubMemNaive(cells, pageProds, padCell, nPad, z, alpha, size) ==
    LET padded == cells \o [i \in 1..nPad |-> padCell] IN
    Mul(PowNat(z, size), Inv(Mul(CellProduct(padded, z, alpha), SeqProduct(pageProds))))
\* the code's form: a power of the padding factor
PubMemClosed(cells, pageProds, padCell, nPad, z, alpha, size) ==
    LET pad == Sub(z, Add(padCell[1], Mul(alpha, padCell[2]))) IN
    Mul(Mul(PowNat(z, size), Inv(Mul(CellProduct(cells, z, alpha), SeqProduct(pageProds)))), Inv(PowNat(pad, nPad)))
=============================================================================
