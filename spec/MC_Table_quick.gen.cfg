CONSTANT MaxHeight = 2
CONSTANT MaxCols = 3
CONSTANT WideCols = {17}
CONSTANT Emit = TRUE
INIT Init
NEXT Next
INVARIANT Complete
INVARIANT Binding
INVARIANT LengthGuard
INVARIANT EmitReplay
CHECK_DEADLOCK FALSE
