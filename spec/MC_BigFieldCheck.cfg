INIT Init
NEXT Next
INVARIANT AllOK
CHECK_DEADLOCK FALSE
