-------------------------------- MODULE Stark --------------------------------
(* The STARK verifier (crates/stark/src/stark.rs, commit.rs, verify.rs) as a protocol state   *)
(* machine against an adaptive prover.  The prover's hidden state says whether a satisfying    *)
(* trace exists and which of its messages are truthful; the verifier's checks are the guards   *)
(* of the code (each switchable, to show that the property needs it).  Soundness (C01):        *)
(*   accept /\ no satisfying trace  =>  an event the model marks negligible happened           *)
(* (the out-of-domain point hit a root of a non-zero polynomial; every query missed every       *)
(* inconsistent position; a hash collision).  Every strategy x declaration is emitted as a      *)
(* recipe for the toy prover of the harness and run against the real StarkProof::verify.        *)
EXTENDS Naturals, FiniteSets, Sequences, TLC, Json

CONSTANTS Mask, CDeg,
          G_OodsLen, G_FriTie, G_Ranges, G_LayerDecommit,    \* guards present in the code
          Emit

Strategies == {"honest", "badTrace", "lieComp", "lieMask", "extraOods", "adaptiveLeaves", "garbageFri"}
\* "nativeCosets0": the prover really works with blow-up 1 (every commitment, DEEP and FRI built for it), not a re-declaration
CfgDevs == {"none", "nativeCosets0", "logCosets0", "nQueries0", "nQueries49", "friInputPlus1", "cosetsWrap", "powBits19", "lastLayerDrop"}

\* hidden state of the prover for each strategy
Adv(s) ==
  [ traceOK      |-> s \in {"honest", "garbageFri"},
    hTrue        |-> s \in {"honest", "garbageFri"},            \* committed composition is the true quotient
    maskTruthful |-> s # "lieMask",
    compTruthful |-> s \notin {"lieComp", "adaptiveLeaves"},   \* adaptiveLeaves lies at OODS as well, to get past the equation
    friFolds     |-> s # "garbageFri",                          \* inner layers are the folds of their predecessors
    leavesHonest |-> s # "adaptiveLeaves",                      \* first-layer sibling leaves are the committed values
    friFor       |-> IF s = "adaptiveLeaves" THEN "zero" ELSE "deep",   \* which function the FRI layers were committed for
    oodsLen      |-> IF s = "extraOods" THEN Mask + CDeg + 2 ELSE Mask + CDeg ]

\* numbers the proof declares (honest base: trace 2^3, blow-up 2^1, 2 queries, FRI degree bound = trace length)
Base == [logTrace |-> 3, logCosets |-> 1, nQueries |-> 2, friDeg |-> 3, friLogInput |-> 4, powBits |-> 20, lastLenOK |-> TRUE]
Cfg(d) == CASE d = "none"          -> Base
            [] d = "logCosets0"    -> [Base EXCEPT !.logCosets = 0, !.friLogInput = 3]
            [] d = "nativeCosets0" -> [Base EXCEPT !.logCosets = 0, !.friLogInput = 3]
            [] d = "nQueries0"     -> [Base EXCEPT !.nQueries = 0]
            [] d = "nQueries49"    -> [Base EXCEPT !.nQueries = 49]
            [] d = "friInputPlus1" -> [Base EXCEPT !.friLogInput = 5, !.friDeg = 4]
            [] d = "cosetsWrap"    -> [Base EXCEPT !.logCosets = 1000, !.friLogInput = 1003]   \* "p - 2": out of every range
            [] d = "powBits19"     -> [Base EXCEPT !.powBits = 19]
            [] d = "lastLayerDrop" -> [Base EXCEPT !.lastLenOK = FALSE]

VARIABLES strat, dev, phase, luck, verdict
vars == <<strat, dev, phase, luck, verdict>>
adv == Adv(strat)
cfg == Cfg(dev)

Init == /\ strat \in Strategies /\ dev \in CfgDevs
        /\ phase = "config" /\ verdict = "running"
        /\ luck \in SUBSET {"oodsPointIsRoot", "queriesMissEverything"}

Reject(why) == verdict' = <<"reject", why>> /\ phase' = "done" /\ UNCHANGED <<strat, dev, luck>>
Goto(p) == phase' = p /\ UNCHANGED <<strat, dev, luck, verdict>>

(* --- StarkConfig::validate --- *)
ValidateConfig ==
  /\ phase = "config"
  /\ IF /\ cfg.powBits \in 20..50
        /\ (G_Ranges => cfg.logCosets \in 1..16 /\ cfg.nQueries \in 1..48)
        /\ cfg.friLogInput = cfg.friDeg + cfg.logCosets
        /\ (G_FriTie => cfg.friDeg = cfg.logTrace)
     THEN Goto("commit")
     ELSE Reject("config")

(* --- stark_commit: commitments, OODS, FRI commitments, proof of work --- *)
ClaimIsOpened == adv.oodsLen = Mask + CDeg
Consistent == adv.traceOK /\ adv.hTrue
OodsEquationHolds ==
  IF ClaimIsOpened
  THEN IF adv.maskTruthful /\ adv.compTruthful THEN (Consistent \/ "oodsPointIsRoot" \in luck) ELSE TRUE   \* a liar picks the lie that fits
  ELSE TRUE                                                                                                \* free trailing entries are chosen to fit
CommitPhase ==
  /\ phase = "commit"
  /\ IF G_OodsLen /\ adv.oodsLen # Mask + CDeg THEN Reject("oods-length")
     ELSE IF ~OodsEquationHolds THEN Reject("oods-equation")
     ELSE IF ~cfg.lastLenOK THEN Reject("last-layer-length")
     ELSE Goto("queries")                                   \* proof of work is ground honestly by every strategy

(* --- queries, first-layer decommitments (always truthful here), FRI --- *)
\* the function FRI is run on is low-degree iff every opened value at z is the committed function's value
DeepLow == adv.maskTruthful /\ adv.compTruthful /\ ClaimIsOpened
DeclaredBoundTooLoose == cfg.friDeg > cfg.logTrace                    \* degree bound above the trace length
FriVacuous == cfg.logCosets = 0 \/ cfg.nQueries = 0 \/ DeclaredBoundTooLoose
FriAccepts ==
  \/ FriVacuous
  \/ (adv.friFor = "deep" /\ adv.friFolds /\ DeepLow)
  \/ (adv.friFor = "zero" /\ ~adv.leavesHonest /\ ~G_LayerDecommit)   \* unbound first layer: leaves chosen so that folds hit the committed zero layers
  \/ "queriesMissEverything" \in luck
VerifyPhase ==
  /\ phase = "queries"
  /\ IF FriAccepts THEN (verdict' = <<"accept", "ok">> /\ phase' = "done" /\ UNCHANGED <<strat, dev, luck>>)
     ELSE Reject("fri")

Next == ValidateConfig \/ CommitPhase \/ VerifyPhase
Spec == Init /\ [][Next]_vars
Done == phase = "done"

(* ------------------------------- properties ------------------------------- *)
Sound == (Done /\ verdict[1] = "accept" /\ ~adv.traceOK) => luck # {}
Hypotheses == (Done /\ verdict[1] = "accept") =>
  /\ adv.oodsLen = Mask + CDeg
  /\ cfg.logCosets \in 1..16 /\ cfg.nQueries \in 1..48
  /\ cfg.friLogInput = cfg.logTrace + cfg.logCosets
  /\ cfg.friDeg = cfg.logTrace
  /\ cfg.lastLenOK
HonestAccepted == (Done /\ strat = "honest" /\ dev = "none") => verdict[1] = "accept"
EmitReplay == (Emit /\ Done /\ luck = {}) =>
    PrintT(<<"REPLAY", ToJson([strategy |-> strat, cfgdev |-> dev, expect |-> verdict[1], stage |-> verdict[2],
                               trace_ok |-> adv.traceOK])>>)
=============================================================================
