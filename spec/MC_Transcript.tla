---------------------------- MODULE MC_Transcript ----------------------------
(* All operation histories up to MaxOps over a small alphabet; emits each maximal history  *)
(* with the expected symbolic results as a REPLAY line for the Rust harness.               *)
EXTENDS Transcript, Json
CONSTANTS MaxOps, Emit
VARIABLES hist, ctrs
vars == <<digest, counter, absorbed, outs, hist, ctrs>>

A == Atom("a")
B == Atom("b")
Ops == { <<"felt", A>>, <<"felt", B>>, <<"vec", <<>>>>, <<"vec", <<A>>>>, <<"vec", <<A, B>>>>,
         <<"vec", <<B, A>>>>, <<"u64", 0>>, <<"u64", 1>>, <<"squeeze", 1>>, <<"squeezes", 0>>, <<"squeezes", 2>> }

MsgOf(op) == CASE op[1] = "felt" -> <<op[2]>>
               [] op[1] = "vec"  -> op[2]
               [] op[1] = "u64"  -> <<NatT(op[2])>>

Init == TInit /\ hist = <<>> /\ ctrs = <<>>
Step(op) ==
    /\ Len(hist) < MaxOps
    /\ hist' = Append(hist, op)
    /\ CASE op[1] = "squeeze"  -> Squeeze
         [] op[1] = "squeezes" -> SqueezeMany(op[2])
         [] OTHER              -> Absorb(MsgOf(op))
    /\ ctrs' = Append(ctrs, counter')
Next == \E op \in Ops : Step(op)
Spec == Init /\ [][Next]_vars

EmitReplay ==
    (Emit /\ Len(hist) = MaxOps) =>
        PrintT(<<"REPLAY", ToJson([ops |-> hist, counters |-> ctrs, digest |-> digest,
                                   outs |-> [i \in 1..Len(outs) |-> outs[i][1]]])>>)
Stable == [][\A i \in 1..Len(outs) : outs'[i] = outs[i]]_vars
=============================================================================
