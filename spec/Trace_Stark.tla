----------------------------- MODULE Trace_Stark -----------------------------
(* Trace validation of the whole verifier, StarkProof::verify::<Layout>, on top of         *)
(* Trace_Fri / Trace_Table / Trace_Vector, Pow and the query rule.  The trace starts with a  *)
(* `proof` record written by the harness (what the proof declares and ships) followed by the *)
(* hooked events of the real run and the `result` the caller saw.                            *)
(*                                                                                           *)
(* The protocol order is the Fiat-Shamir order and is strict:                                *)
(*   config ok -> public input ok -> seed -> absorb C_orig -> squeeze interaction elements    *)
(*   -> absorb C_inter -> squeeze alpha -> absorb C_comp -> squeeze z -> absorb OODS vector    *)
(*   -> OODS equation -> squeeze alpha' -> (absorb C_fri,i -> squeeze zeta_i)* -> absorb last   *)
(*   layer -> PoW on the current digest -> absorb nonce -> squeeze n_queries samples -> sort,   *)
(*   dedup -> decommit original, interaction, composition rows at the queries -> points ->      *)
(*   DEEP values -> FRI (first layer = queries/DEEP values/points; evaluation points = zeta_i)  *)
(*   -> accept.                                                                                *)
(* Every absorbed message must be the proof's field, every consumer must read the challenge    *)
(* drawn at its place, and an accepting result needs every check to have passed.  When the     *)
(* code reports "config ok" the specification's own ConfigOK (integer reading) must hold.      *)
EXTENDS Trace_Fri, Pow
VARIABLE sk
svars == <<fvars, sk>>
lower == <<vvars, tc, fri>>

NoSk == [stage |-> "start"]
SInit == FInit /\ sk = NoSk

SReset == /\ Is("reset") /\ Consume
          /\ ready' = <<>> /\ authseq' = <<>> /\ used' = 0 /\ root' = "none" /\ phase' = "idle" /\ lastok' = "none"
          /\ UNCHANGED <<nvf, nchecked>> /\ tc' = NoTc /\ fri' = NoFri /\ sk' = NoSk

Proof == /\ Is("proof") /\ sk.stage = "start" /\ Consume
         /\ sk' = [stage |-> "proof", pr |-> Ev, dig |-> "none", ctr |-> "0x0", chal |-> <<>>, z |-> "0x0",
                   eqok |-> FALSE, powok |-> FALSE, raws |-> <<>>, queries |-> <<>>, pts |-> <<>>, deep |-> <<>>,
                   ndec |-> 0, failed |-> FALSE, nfri |-> 0]
         /\ UNCHANGED lower

pr == sk.pr
RECURSIVE SumNat(_)
SumNat(s) == IF s = <<>> THEN "0x0" ELSE BNAdd(Head(s), SumNat(Tail(s)))
InRange(x, lo, hi) == BNLeq(BNOf(lo), x) /\ BNLeq(x, BNOf(hi))
\* the part of C11's predicate visible in the proof record, integer reading
DeclaredConfigOK ==
    /\ pr.pow_bits >= 20 /\ pr.pow_bits <= 50
    /\ InRange(pr.log_cosets, 1, 16) /\ InRange(pr.n_queries, 1, 48)
    /\ BNLeq(pr.security_bits, BNAdd(BNMul(pr.n_queries, pr.log_cosets), BNOf(pr.pow_bits)))
    /\ InRange(pr.fri_n_layers, 2, 15)
    /\ Len(pr.fri_steps) = BNToInt(pr.fri_n_layers)
    /\ pr.fri_steps[1] = "0x0"
    /\ \A i \in 2..Len(pr.fri_steps) : InRange(pr.fri_steps[i], 1, 4)
    /\ InRange(pr.fri_log_last, 0, 15)
    /\ pr.fri_log_input = BNAdd(pr.log_trace, pr.log_cosets)
    /\ BNAdd(SumNat(pr.fri_steps), pr.fri_log_last) = pr.log_trace

ConfigOkEv == /\ Is("st.config_ok") /\ sk.stage = "proof" /\ Consume
              /\ DeclaredConfigOK
              /\ sk' = [sk EXCEPT !.stage = "config_ok"] /\ UNCHANGED lower
PiOkEv == /\ Is("st.pi_ok") /\ sk.stage = "config_ok" /\ Consume
          /\ sk' = [sk EXCEPT !.stage = "pi_ok"] /\ UNCHANGED lower
SeedEv == /\ Is("st.seed") /\ sk.stage = "pi_ok" /\ Consume
          /\ sk' = [sk EXCEPT !.stage = "seeded", !.dig = Ev.digest, !.ctr = "0x0"] /\ UNCHANGED lower

\* transcript steps
Absorbs(msg, from, to) ==
    /\ Is("absorb") /\ sk.stage = from /\ Consume
    /\ Ev.hok /\ Ev.before = sk.dig /\ Ev.msg = msg
    /\ sk' = [sk EXCEPT !.stage = to, !.dig = Ev.digest, !.ctr = "0x0"]
    /\ UNCHANGED lower
Squeezes(from, to) ==
    /\ Is("squeeze") /\ sk.stage = from /\ Consume
    /\ Ev.hok /\ Ev.digest = sk.dig /\ Ev.counter = sk.ctr
    /\ sk' = [sk EXCEPT !.stage = to, !.ctr = BNAdd(sk.ctr, "0x1"), !.chal = Append(@, Ev.out)]
    /\ UNCHANGED lower

AbsOrig == sk.stage = "seeded" /\ Absorbs(<<pr.c_orig>>, "seeded", "ie")
\* n_ie interaction elements, then the interaction commitment
SqIE == /\ sk.stage = "ie" /\ Len(sk.chal) < pr.n_ie /\ Squeezes("ie", "ie")
AbsInter == /\ sk.stage = "ie" /\ Len(sk.chal) = pr.n_ie /\ Absorbs(<<pr.c_inter>>, "ie", "c_inter")
SqAlpha == Squeezes("c_inter", "alpha")
AbsComp == sk.stage = "alpha" /\ Absorbs(<<pr.c_comp>>, "alpha", "c_comp")
SqZ == /\ Squeezes("c_comp", "z") /\ TRUE
AbsOods == sk.stage = "z" /\ Absorbs(pr.oods, "z", "oods_absorbed")

OodsPoint == sk.chal[pr.n_ie + 2]      \* challenges: n_ie interaction elements, alpha, z
OodsEv ==
    /\ Is("oods") /\ sk.stage = "oods_absorbed" /\ Consume
    /\ Ev.len = Len(pr.oods) /\ Ev.values = pr.oods
    /\ Ev.len = pr.mask + pr.cdeg                 \* soundness hypothesis: the claimed pair is the opened pair
    /\ pr.cdeg = 2
    /\ Ev.point = OodsPoint
    /\ Ev.claimed = FAdd(pr.oods[pr.mask + 1], FMul(pr.oods[pr.mask + 2], OodsPoint))
    /\ sk' = [sk EXCEPT !.stage = "oods_checked", !.eqok = (Ev.from_trace = Ev.claimed)]
    /\ UNCHANGED lower
SqAlpha2 == /\ sk.stage = "oods_checked" /\ sk.eqok /\ Squeezes("oods_checked", "fri_commit")

\* FRI commit phase: the squeezed evaluation points are the ones the layers must be folded with
NFriCommits == Len(pr.fri_commits)
AbsFriCommit ==
    /\ sk.stage = "fri_commit"
    /\ sk.nfri < NFriCommits /\ BNOf(NFriCommits + 1) = pr.fri_n_layers
    /\ Is("absorb") /\ sk.stage = "fri_commit" /\ Consume
    /\ Ev.hok /\ Ev.before = sk.dig /\ Ev.msg = <<pr.fri_commits[sk.nfri + 1]>>
    /\ sk' = [sk EXCEPT !.stage = "fri_sq", !.dig = Ev.digest, !.ctr = "0x0"]
    /\ UNCHANGED lower
SqFriEval ==
    /\ Is("squeeze") /\ sk.stage = "fri_sq" /\ Consume
    /\ Ev.hok /\ Ev.digest = sk.dig /\ Ev.counter = sk.ctr
    /\ sk' = [sk EXCEPT !.stage = "fri_commit", !.ctr = BNAdd(sk.ctr, "0x1"), !.nfri = @ + 1]
    /\ fri' = [fri EXCEPT !.sq = Append(@, Ev.out), !.link = TRUE]
    /\ UNCHANGED <<vvars, tc>>
AbsLast == /\ sk.stage = "fri_commit" /\ sk.nfri = NFriCommits /\ BNOf(NFriCommits + 1) = pr.fri_n_layers
           /\ Absorbs(pr.last_coefs, "fri_commit", "last_absorbed")

PowEv ==
    /\ Is("pow") /\ sk.stage = "last_absorbed" /\ Consume
    /\ Ev.hok
    /\ BHToNat(Ev.digest) = sk.dig /\ BHLen(Ev.digest) = 32
    /\ Ev.n_bits = pr.pow_bits /\ Ev.nonce = pr.nonce
    /\ Ev.pre1 = InitPreimage(Ev.digest, Ev.n_bits) /\ Ev.pre2 = FinalPreimage(Ev.h1, Ev.nonce)
    /\ BNFitsInt(pr.fri_log_last) /\ BNOf(Len(pr.last_coefs)) = BNPow2(BNToInt(pr.fri_log_last))
    /\ sk' = [sk EXCEPT !.stage = "pow", !.powok = Accept(Ev.h2, Ev.n_bits)]
    /\ UNCHANGED lower
AbsNonce == /\ sk.stage = "pow" /\ sk.powok /\ Absorbs(<<pr.nonce>>, "pow", "nonce")
CommitOkEv == /\ Is("st.commit_ok") /\ sk.stage = "nonce" /\ Consume
              /\ sk' = [sk EXCEPT !.stage = "commit_ok"] /\ UNCHANGED lower

\* queries
SqQuery ==
    /\ Is("squeeze") /\ sk.stage = "commit_ok" /\ Consume
    /\ Ev.hok /\ Ev.digest = sk.dig /\ Ev.counter = sk.ctr
    /\ sk' = [sk EXCEPT !.ctr = BNAdd(sk.ctr, "0x1"), !.raws = Append(@, Ev.out)]
    /\ UNCHANGED lower
SampleQ(r, size) == BNMod(BNLowBits(r, 128), size)
RECURSIVE SortStrQ(_)
SortStrQ(T) == IF T = {} THEN <<>> ELSE LET m == CHOOSE m \in T : \A y \in T : BNLeq(m, y) IN <<m>> \o SortStrQ(T \ {m})
LogEval == BNToInt(BNAdd(pr.log_trace, pr.log_cosets))
\* When the proof file carries Stone's own log of the interaction (field ann, lexed by the harness independently of
\* the parser), the verifier's challenges must be the ones the prover logged: interaction elements, constraint
\* coefficient seed, out-of-domain point, DEEP coefficient seed, FRI evaluation points, and the query set.
StoneAgrees(qout) ==
    ("ann" \in DOMAIN pr) =>
        /\ SubSeq(sk.chal, 1, pr.n_ie) = pr.ann.ie
        /\ sk.chal[pr.n_ie + 1] = pr.ann.alpha
        /\ sk.chal[pr.n_ie + 2] = pr.ann.z
        /\ sk.chal[pr.n_ie + 3] = pr.ann.alpha2
        /\ fri.sq = pr.ann.evalpts
        /\ qout = SortStrQ({pr.ann.queries[i] : i \in 1..Len(pr.ann.queries)})
QueriesEv ==
    /\ Is("queries") /\ sk.stage = "commit_ok" /\ Consume
    /\ Ev.n = pr.n_queries /\ BNOf(Len(sk.raws)) = pr.n_queries
    /\ Ev.bound = BNPow2(LogEval)
    /\ Ev.out = SortStrQ({SampleQ(sk.raws[i], Ev.bound) : i \in 1..Len(sk.raws)})
    /\ StoneAgrees(Ev.out)
    /\ sk' = [sk EXCEPT !.stage = "dec", !.queries = Ev.out, !.ndec = 0]
    /\ UNCHANGED lower

\* the three first-layer decommitments: original and interaction traces, composition
DecValues == CASE sk.ndec = 0 -> pr.orig_values [] sk.ndec = 1 -> pr.inter_values [] OTHER -> pr.comp_values
\* trace tables: the layout's column counts (configuration validation has tied the declared counts to them); composition
\* table: the declared count, which configuration validation leaves free - a count other than the constraint degree can
\* only fail the length guard or the decommitment
DecCols   == CASE sk.ndec = 0 -> BNOf(pr.n1) [] sk.ndec = 1 -> BNOf(pr.n2) [] OTHER -> pr.comp_ncols
\* both trace decommitments are evaluated before their verdicts are combined
MayStartDec == sk.ndec = 0 \/ sk.ndec = 1 \/ (sk.ndec = 2 /\ ~sk.failed)
DecTcBegin ==
    /\ sk.stage = "dec" /\ sk.ndec < 3 /\ MayStartDec /\ phase = "idle" /\ tc.st # "rows"
    /\ TcBegin
    /\ Ev.queries = sk.queries /\ Ev.values = DecValues /\ Ev.n_columns = DecCols
    /\ Ev.height = BNOf(LogEval) /\ Ev.nvf = pr.nvf
    /\ sk' = [sk EXCEPT !.stage = "dec_open", !.failed = (@ \/ BNOf(Len(DecValues)) # BNMul(DecCols, BNOf(Len(sk.queries))))]
    /\ UNCHANGED fri
\* length guard failed: the call returned without opening anything; the next decommitment (or the end) follows
DecLenFail ==
    /\ sk.stage = "dec_open" /\ tc.st = "begin"
    /\ BNOf(Len(tc.values)) # BNMul(tc.ncols, BNOf(Len(tc.queries)))
    /\ sk' = [sk EXCEPT !.stage = "dec", !.ndec = @ + 1]
    /\ tc' = NoTc /\ UNCHANGED <<l, vvars, fri>>
DecVcEnd ==
    /\ sk.stage = "dec_open" /\ VcEnd /\ UNCHANGED <<tc, fri>>
    /\ sk' = [sk EXCEPT !.stage = "dec", !.ndec = @ + 1, !.failed = (@ \/ ~Ev.ok)]
\* a decommitment that ran out of authentication nodes ends without vc.end
DecAbort ==
    /\ sk.stage = "dec_open" /\ phase = "open" /\ l <= Len(Rec) /\ Ev.ev \notin {"vc.node", "vc.end"}
    /\ sk' = [sk EXCEPT !.stage = "dec", !.ndec = @ + 1, !.failed = TRUE]
    /\ phase' = "idle" /\ UNCHANGED <<l, ready, authseq, used, root, nvf, lastok, nchecked, tc, fri>>

PointsEvS ==
    /\ Is("points") /\ sk.stage = "dec" /\ sk.ndec = 3 /\ ~sk.failed /\ Consume
    /\ Ev.q = sk.queries
    /\ Ev.log_eval = BNOf(LogEval) /\ LogEval <= 64
    /\ LET w == RootOfUnity(LogEval) IN
       /\ Ev.gen = w
       /\ Len(Ev.pts) = Len(Ev.q)
       /\ \A i \in 1..Len(Ev.q) : Ev.pts[i] = FMul("0x3", FPow(w, BNBitRev(Ev.q[i], LogEval)))
    /\ sk' = [sk EXCEPT !.stage = "points", !.pts = Ev.pts]
    /\ UNCHANGED lower
DeepEv ==
    /\ Is("deep") /\ sk.stage = "points" /\ Consume
    /\ Len(Ev.evals) = Len(sk.queries)
    /\ sk' = [sk EXCEPT !.stage = "fri", !.deep = Ev.evals]
    /\ UNCHANGED lower
\* FRI: the first layer is (queries, DEEP values, points)
SFriFirst ==
    /\ sk.stage = "fri" /\ Is("fri.first") /\ fri.st \in {"none", "commit"}
    /\ Ev.idx = sk.queries /\ Ev.y = sk.deep /\ SubSeq(Ev.x, 1, Len(sk.pts)) = sk.pts
    /\ FriFirst /\ UNCHANGED sk
SFriBegin ==
    /\ sk.stage = "fri" /\ FriBegin /\ UNCHANGED sk
    /\ Ev.n_layers = pr.fri_n_layers /\ Ev.steps = pr.fri_steps /\ Ev.log_last = pr.fri_log_last
    /\ Ev.n_coefs = Len(pr.last_coefs)
SFriLast == sk.stage = "fri" /\ FriLast /\ Ev.coefs = pr.last_coefs /\ UNCHANGED sk
SFri == sk.stage = "fri" /\ UNCHANGED sk /\
        (\/ FriLayer \/ FriGather \/ FriFold \/ FriTcBegin \/ FriVcEnd
         \/ ((TcRows \/ VcBeginLinked) /\ fri.st = "decommit" /\ UNCHANGED fri)
         \/ ((VcNodePair \/ VcNodeAuth) /\ UNCHANGED <<tc, fri>>))
VerifyOkEv ==
    /\ Is("st.verify_ok") /\ sk.stage = "fri" /\ Consume
    /\ FriAccepting
    /\ sk' = [sk EXCEPT !.stage = "verify_ok"] /\ UNCHANGED lower

\* the verdict the caller saw: acceptance only at the very end; rejection is allowed wherever a check may fail
ResultEv ==
    /\ Is("result") /\ Consume
    /\ Ev.ok => sk.stage = "verify_ok"
    /\ sk' = NoSk /\ tc' = NoTc /\ fri' = NoFri /\ phase' = "idle"
    /\ UNCHANGED <<ready, authseq, used, root, nvf, lastok, nchecked>>

DecInner == sk.stage = "dec_open" /\ UNCHANGED <<sk, fri>> /\
            (\/ TcRows \/ VcBeginLinked \/ ((VcNodePair \/ VcNodeAuth) /\ UNCHANGED tc))

\* DecLenFail and DecAbort consume no event, so the number of states is not the number of consumed events: acceptance is
\* decided on the highest cursor position reached (register 1, updated by the state constraint TrackL; one worker).
ASSUME TLCSet(1, 1)
TrackL == TLCSet(1, IF l > TLCGet(1) THEN l ELSE TLCGet(1))
AcceptedS == IF TLCGet(1) = Len(Rec) + 1 THEN TRUE
             ELSE /\ PrintT(<<"TRACE-REJECTED", TLCGet(1)>>)
                  /\ FALSE

SNext == \/ SReset \/ Proof \/ ConfigOkEv \/ PiOkEv \/ SeedEv \/ AbsOrig \/ SqIE \/ AbsInter \/ SqAlpha \/ AbsComp \/ SqZ \/ AbsOods
         \/ OodsEv \/ SqAlpha2 \/ AbsFriCommit \/ SqFriEval \/ AbsLast \/ PowEv \/ AbsNonce \/ CommitOkEv \/ SqQuery \/ QueriesEv
         \/ DecTcBegin \/ DecLenFail \/ DecVcEnd \/ DecAbort \/ DecInner \/ PointsEvS \/ DeepEv
         \/ SFriFirst \/ SFriBegin \/ SFriLast \/ SFri \/ VerifyOkEv \/ ResultEv
=============================================================================
