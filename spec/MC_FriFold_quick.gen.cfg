CONSTANT P = 97
CONSTANT Gen = 5
CONSTANT BMax = 16
CONSTANT XMax = 12
INIT Init
NEXT Next
INVARIANT ButterflyIsFolding
INVARIANT DefIsFolding
INVARIANT GroupOK
CHECK_DEADLOCK FALSE
