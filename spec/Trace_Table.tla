---------------------------- MODULE Trace_Table ----------------------------
(* Trace validation of table_decommit on top of Trace_Vector.                              *)
(*  tc.begin: declared shape and the raw cells;  tc.rows: Montgomery cells and row hashes.  *)
(*  - bottom_friendly = (nvf >= height + 1) read as integers                                *)
(*  - every Montgomery cell = cell * R at the real field (recomputed here)                  *)
(*  - row hashes follow the rule (hok: recomputed by the harness' independent builder)      *)
(*  - the vector decommitment that follows opens exactly these row hashes at these indices   *)
EXTENDS Trace_Vector
VARIABLE tc
tvars == <<vars, tc>>
tvars_nol == <<vvars, tc>>
NoTc == [st |-> "none"]
MontR == "0x7fffffffffffdf0ffffffffffffffffffffffffffffffffffffffffffffffe1"

TInit == Init /\ tc = NoTc

TcBegin ==
    /\ Is("tc.begin") /\ phase = "idle" /\ Consume
    /\ Ev.bottom_friendly = BNLeq(BNAdd(Ev.height, "0x1"), Ev.nvf)
    /\ tc' = [st |-> "begin", ncols |-> Ev.n_columns, height |-> Ev.height, nvf |-> Ev.nvf,
              queries |-> Ev.queries, values |-> Ev.values]
    /\ UNCHANGED <<ready, authseq, used, root, nvf, phase, lastok, nchecked>>

TcRows ==
    /\ Is("tc.rows") /\ tc.st = "begin" /\ Consume
    /\ Ev.hok
    /\ BNFitsInt(tc.ncols)
    /\ Len(Ev.mont) = Len(tc.values)
    /\ Len(tc.values) = BNToInt(tc.ncols) * Len(tc.queries)        \* the length guard passed
    /\ \A i \in 1..Len(Ev.mont) : Ev.mont[i] = FMul(tc.values[i], MontR)
    /\ Ev.idx = tc.queries
    /\ (tc.ncols = "0x1" => Ev.hash = Ev.mont)
    /\ tc' = [st |-> "rows", height |-> tc.height, nvf |-> tc.nvf, idx |-> Ev.idx, hash |-> Ev.hash]
    /\ UNCHANGED <<ready, authseq, used, root, nvf, phase, lastok, nchecked>>

VcBeginLinked ==
    /\ VcBegin
    /\ (tc.st = "rows" => /\ Ev.idx = tc.idx /\ Ev.val = tc.hash
                          /\ Ev.height = tc.height /\ Ev.nvf = tc.nvf)
    /\ tc.st # "begin"
    /\ tc' = NoTc

\* the value returned to the caller of table_decommit (recorded by the harness):
\* ok iff the length guard passed, and the vector decommitment succeeded
TcResult ==
    /\ Is("tc.result") /\ Consume
    /\ Ev.ok = (lastok = "true" /\ tc.st = "none")
    /\ tc' = NoTc /\ phase' = "idle" /\ UNCHANGED <<ready, authseq, used, root, nvf, lastok, nchecked>>

TReset == Reset /\ tc' = NoTc

TNext == \/ TcBegin \/ TcRows \/ VcBeginLinked \/ TcResult \/ TReset
         \/ ((VcNodePair \/ VcNodeAuth \/ VcEnd \/ VcResult) /\ UNCHANGED tc)
=============================================================================
