CONSTANT G_FriCfgLens = FALSE
CONSTANT G_OodsLen = TRUE
CONSTANT G_CommitLens = TRUE
CONSTANT G_WitnessLen = TRUE
CONSTANT G_LeafCheck = TRUE
CONSTANT G_PageBounds = TRUE
SPECIFICATION Spec
INVARIANT TotalInv
CHECK_DEADLOCK FALSE
