INIT SInit
NEXT SNext
CONSTRAINT TrackL
POSTCONDITION AcceptedS
CHECK_DEADLOCK FALSE
