INIT SInit
NEXT SNext
POSTCONDITION Accepted
CHECK_DEADLOCK FALSE
