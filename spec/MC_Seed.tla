------------------------------- MODULE MC_Seed -------------------------------
(* C13 on the model: over a small alphabet, two public inputs have equal seed terms iff they *)
(* are equal (the flattening of variable-length parts is injective for a fixed layout).        *)
EXTENDS PublicInput, TLC, Json
CONSTANTS Stone6, Emit, Small
A == Atom("a")
B == Atom("b")
Vals == {A, B}
Pages == {<<>>} \cup {<<<<x, y>>>> : x \in Vals, y \in Vals}
         \cup (IF Small THEN {<<<<A, B>>, <<B, A>>>>, <<<<B, A>>, <<A, B>>>>} ELSE {<<<<x, y>>, <<u, v>>>> : x \in Vals, y \in Vals, u \in Vals, v \in {A}})
Z == NatT(0)     \* a zero-size continuous page is still a declared page
Headers == {<<>>, <<<<A, A, A>>>>, <<<<B, A, A>>>>, <<<<A, Z, A>>>>}
PIs == [logSteps : {A}, rcMin : {A}, rcMax : Vals, layout : {A}, dyn : {<<>>, <<A>>}, segs : {<<<<A, A>>>>, <<<<A, B>>>>},
        padAddr : Vals, padVal : {A}, page : Pages, headers : Headers]
VARIABLES p1, p2, n1, n2
Init == p1 \in PIs /\ p2 \in PIs /\ n1 \in Vals /\ n2 \in Vals
Next == UNCHANGED <<p1, p2, n1, n2>>
\* dyn has a fixed length for a given layout: compare only inputs of the same layout shape
SameShape == Len(p1.dyn) = Len(p2.dyn)
Binds == SameShape => ((SeedTerm(p1, Stone6, n1) = SeedTerm(p2, Stone6, n2)) <=> (p1 = p2 /\ (Stone6 => n1 = n2)))
EmitReplay == (Emit /\ p1 = p2 /\ n1 = n2 /\ p1.dyn = <<>>) =>
    PrintT(<<"REPLAY", ToJson([pi |-> p1, nvf |-> n1, stone6 |-> Stone6, seed |-> SeedTerm(p1, Stone6, n1)])>>)
=============================================================================
