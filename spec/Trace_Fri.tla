------------------------------ MODULE Trace_Fri ------------------------------
(* Trace validation of fri_verify at the real field, on top of Trace_Table / Trace_Vector.  *)
(* Every arithmetic fact the code logs is re-derived here from the specification:            *)
(*   fri.first  : x_inv = 1 / (x / 3)                                                         *)
(*   fri.begin  : the 16-element group is  g^bitrev(i,4), g = 3^((p-1)/16)  (defining relation)*)
(*   fri.gather : coset assembly from the pending queries and the witness leaves, in order     *)
(*   fri.fold   : out = FoldDef(elements, k, eval_point, x_inv)  -- the interpolation formula, *)
(*                not the butterfly;  next x_inv = x_inv^(2^k);  next index = coset index      *)
(*   tc.* / vc.*: the layer decommitment opens exactly the gathered cosets (Trace_Table)       *)
(*   fri.last   : y = PolyEval(coefficients, 1 / x_inv)                                        *)
(*   fri.result : accepted iff every layer was decommitted successfully, the last layer has    *)
(*                exactly 2^log_last coefficients and every last-layer equation holds          *)
EXTENDS Trace_Table
VARIABLES fri   \* record: the verifier's FRI state
fvars == <<tvars, fri>>

SF == INSTANCE FriFoldG WITH Add <- FAdd, Sub <- FSub, Mul <- FMul, Inv <- FInv, Zero <- "0x0", One <- "0x1",
                             RootOf <- RootOfUnity, BitRevOp <- LAMBDA i, n : BNToInt(BNBitRev(BNOf(i), n))
GenInv == FInv("0x3")
Group16 == [i \in 1..16 |-> FPow(RootOfUnity(4), BNBitRev(BNOf(i - 1), 4))]

NoShip == [has |-> FALSE, commits |-> <<>>, last |-> <<>>]
\* ship: what the prover sent in the commit phase (layer commitments, last-layer coefficients) when the harness recorded it;
\* nabs: messages absorbed so far
NoFri == [st |-> "none", link |-> FALSE, sq |-> <<>>, dig |-> "none", ship |-> NoShip, nabs |-> 0]
FInit == TInit /\ fri = NoFri

\* a harness case: the commit phase's challenges are the verifier's evaluation points unless the case corrupts them
FReset == TReset /\ fri' = [NoFri EXCEPT !.link = (("corrupt" \in DOMAIN Ev) => Ev.corrupt[1] = "none"),
                                       !.ship = IF "ship" \in DOMAIN Ev THEN [has |-> TRUE, commits |-> Ev.ship.commits, last |-> Ev.ship.last] ELSE NoShip]

\* fri_commit: absorb commitment i, squeeze evaluation point i, ..., absorb the last-layer coefficients
FriAbsorb ==
    /\ Is("absorb") /\ fri.st \in {"none", "commit"} /\ Consume
    /\ Ev.hok
    /\ (fri.dig # "none" => Ev.before = fri.dig)
    \* every message is absorbed whole and in order: commitment i, ..., then the entire last-layer coefficient vector
    /\ (fri.ship.has =>
          Ev.msg = IF fri.nabs < Len(fri.ship.commits) THEN <<fri.ship.commits[fri.nabs + 1]>> ELSE fri.ship.last)
    /\ fri' = [fri EXCEPT !.st = "commit", !.dig = Ev.digest, !.nabs = @ + 1]
    /\ UNCHANGED tvars_nol
FriSqueeze ==
    /\ Is("squeeze") /\ fri.st = "commit" /\ Consume
    /\ Ev.hok /\ Ev.digest = fri.dig /\ Ev.counter = "0x0"
    /\ fri' = [fri EXCEPT !.sq = Append(@, Ev.out)]
    /\ UNCHANGED tvars_nol

FriFirst ==
    /\ Is("fri.first") /\ fri.st \in {"none", "commit"} /\ Consume
    /\ (fri.ship.has => fri.nabs = Len(fri.ship.commits) + 1)
    /\ Len(Ev.idx) = Len(Ev.y) /\ Len(Ev.x) >= Len(Ev.idx) /\ Len(Ev.x_inv) = Len(Ev.idx)
    /\ \A t \in 1..Len(Ev.idx) : Ev.x_inv[t] = FInv(FMul(Ev.x[t], GenInv))
    /\ fri' = [st |-> "first", link |-> fri.link, sq |-> fri.sq,
               qs |-> [t \in 1..Len(Ev.idx) |-> <<Ev.idx[t], Ev.y[t], Ev.x_inv[t]>>]]
    /\ UNCHANGED tvars_nol

FriBegin ==
    /\ Is("fri.begin") /\ fri.st = "first" /\ Consume
    /\ Ev.group = Group16
    /\ BNFitsInt(Ev.n_layers) /\ BNToInt(Ev.n_layers) = Len(Ev.steps)
    /\ \A i \in 2..Len(Ev.steps) : BNFitsInt(Ev.steps[i]) /\ BNToInt(Ev.steps[i]) \in 1..4
    /\ fri' = [st |-> "layers", link |-> fri.link, sq |-> fri.sq, qs |-> fri.qs, steps |-> [i \in 1..Len(Ev.steps) |-> BNToInt(Ev.steps[i])],
               nl |-> Len(Ev.steps), loglast |-> Ev.log_last, ncoefs |-> Ev.n_coefs,
               layer |-> 0, inlayer |-> FALSE, failed |-> FALSE, lastdone |-> 0,
               evalpt |-> "0x0", leaves |-> <<>>, lpos |-> 1, nextqs |-> <<>>, opened_idx |-> <<>>, opened_val |-> <<>>,
               gathered |-> FALSE, cur |-> [ci |-> "0x0", elems |-> <<>>, xinv |-> "0x0"]]
    /\ UNCHANGED tvars_nol

K == fri.steps[fri.layer + 2]

FriLayer ==
    /\ Is("fri.layer") /\ fri.st = "layers" /\ ~fri.inlayer /\ ~fri.failed /\ Consume
    /\ fri.layer < fri.nl - 1
    /\ Ev.i = fri.layer
    /\ Ev.step = BNOf(K)
    /\ (fri.link => (fri.layer + 1 <= Len(fri.sq) /\ Ev.eval_point = fri.sq[fri.layer + 1]))
    /\ fri' = [fri EXCEPT !.inlayer = TRUE, !.evalpt = Ev.eval_point, !.leaves = Ev.leaves, !.lpos = 1,
                           !.nextqs = <<>>, !.opened_idx = <<>>, !.opened_val = <<>>, !.gathered = FALSE]
    /\ UNCHANGED tvars_nol

\* the coset assembly of compute_coset_elements, re-derived: returns <<elements, from_query flags, x_inv, rest, lpos, ok>>
RECURSIVE GatherT(_, _, _, _, _, _, _)
GatherT(q, lp, base, j, acc, flags, xinv) ==
    IF j = 2^K THEN <<acc, flags, xinv, q, lp, TRUE>>
    ELSE IF q # <<>> /\ Head(q)[1] = BNAdd(base, BNOf(j))
         THEN GatherT(Tail(q), lp, base, j + 1, Append(acc, Head(q)[2]), Append(flags, 1), FMul(Head(q)[3], Group16[j + 1]))
         ELSE IF lp > Len(fri.leaves) THEN <<acc, flags, xinv, q, lp, FALSE>>
         ELSE GatherT(q, lp + 1, base, j + 1, Append(acc, fri.leaves[lp]), Append(flags, 0), xinv)

FriGather ==
    /\ Is("fri.gather") /\ fri.st = "layers" /\ fri.inlayer /\ ~fri.gathered /\ fri.qs # <<>> /\ Consume
    /\ LET ci == BNDiv(Head(fri.qs)[1], BNPow2(K))
           base == BNMul(ci, BNPow2(K))
           g == GatherT(fri.qs, fri.lpos, base, 0, <<>>, <<>>, "0x0")
       IN /\ g[6]
          /\ Ev.start = base
          /\ Ev.elems = g[1] /\ Ev.from_query = g[2] /\ Ev.x_inv = g[3]
          /\ fri' = [fri EXCEPT !.qs = g[4], !.lpos = g[5], !.gathered = TRUE,
                                !.opened_idx = Append(@, ci), !.opened_val = @ \o g[1],
                                !.cur = [ci |-> ci, elems |-> g[1], xinv |-> g[3]]]
    /\ UNCHANGED tvars_nol

FriFold ==
    /\ Is("fri.fold") /\ fri.st = "layers" /\ fri.inlayer /\ fri.gathered /\ Consume
    /\ Ev.coset = fri.cur.ci
    /\ Ev.coset_size = BNPow2(K)
    /\ Ev.eval_point = fri.evalpt
    /\ Ev.x_inv = fri.cur.xinv
    /\ Ev.out = SF!FoldDef(fri.cur.elems, K, fri.evalpt, fri.cur.xinv)
    /\ Ev.next_x_inv = FPow(fri.cur.xinv, BNPow2(K))
    /\ fri' = [fri EXCEPT !.gathered = FALSE, !.nextqs = Append(@, <<fri.cur.ci, Ev.out, Ev.next_x_inv>>)]
    /\ UNCHANGED tvars_nol

\* the layer's table decommitment opens exactly the gathered cosets
FriTcBegin ==
    /\ fri.st = "layers" /\ fri.inlayer /\ ~fri.gathered /\ fri.qs = <<>>
    /\ TcBegin
    /\ Ev.queries = fri.opened_idx /\ Ev.values = fri.opened_val /\ Ev.n_columns = BNPow2(K)
    /\ fri' = [fri EXCEPT !.inlayer = FALSE, !.st = "decommit"]
\* ... and its verdict decides whether the verifier goes on
FriVcEnd ==
    /\ fri.st = "decommit" /\ VcEnd /\ UNCHANGED tc
    /\ fri' = [fri EXCEPT !.st = "layers", !.layer = @ + 1, !.qs = fri.nextqs, !.failed = ~Ev.ok]
FriLast ==
    /\ Is("fri.last") /\ fri.st = "layers" /\ ~fri.inlayer /\ ~fri.failed /\ Consume
    /\ fri.layer = fri.nl - 1
    /\ fri.lastdone < Len(fri.qs)
    /\ Len(Ev.coefs) = fri.ncoefs
    /\ LET q == fri.qs[fri.lastdone + 1] IN
       /\ Ev.idx = q[1] /\ Ev.x_inv = q[3] /\ Ev.y = q[2]
       /\ Ev.eval = PolyEval(Ev.coefs, FInv(q[3]))
       /\ fri' = [fri EXCEPT !.lastdone = @ + 1, !.failed = (Ev.eval # Ev.y)]
    /\ UNCHANGED tvars_nol

\* fri_verify returns Ok exactly in this state
FriAccepting ==
    /\ fri.st = "layers" /\ ~fri.failed /\ ~fri.inlayer
    /\ fri.layer = fri.nl - 1
    /\ BNFitsInt(fri.loglast) /\ BNOf(fri.ncoefs) = BNPow2(BNToInt(fri.loglast))
    /\ fri.lastdone = Len(fri.qs)

FriResult ==
    /\ Is("fri.result") /\ Consume
    /\ fri.st \in {"layers", "decommit"}
    /\ Ev.ok = FriAccepting
    /\ fri' = NoFri /\ tc' = NoTc /\ phase' = "idle"
    /\ UNCHANGED <<ready, authseq, used, root, nvf, lastok, nchecked>>

FNext == \/ FReset \/ FriAbsorb \/ FriSqueeze \/ FriFirst \/ FriBegin \/ FriLayer \/ FriGather \/ FriFold \/ FriTcBegin \/ FriVcEnd \/ FriLast \/ FriResult
         \/ ((TcRows \/ VcBeginLinked) /\ fri.st = "decommit" /\ UNCHANGED fri)
         \/ ((VcNodePair \/ VcNodeAuth) /\ UNCHANGED <<tc, fri>>)
=============================================================================
