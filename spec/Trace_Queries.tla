---------------------------- MODULE Trace_Queries ----------------------------
(* Trace validation for C10 at the real field: the squeezes consumed by generate_queries,   *)
(* its result, and queries_to_points.                                                       *)
EXTENDS TraceLib, StarkField, FiniteSets
VARIABLES raws,     \* squeeze outputs since the last reset
          digest, counter,
          queries   \* last generate_queries result
vars == <<l, raws, digest, counter, queries>>
Init == l = 1 /\ raws = <<>> /\ digest = "none" /\ counter = "0x0" /\ queries = <<>>

\* a case starts from any transcript state (digest, counter): the samples are H(digest, counter), H(digest, counter + 1), ...
Reset == /\ Is("reset") /\ Consume /\ raws' = <<>> /\ digest' = Ev.digest /\ queries' = <<>>
         /\ counter' = IF "counter" \in DOMAIN Ev THEN Ev.counter ELSE "0x0"

Squeeze ==
    /\ Is("squeeze") /\ Consume
    /\ Ev.hok /\ Ev.digest = digest /\ Ev.counter = counter
    /\ counter' = BNAdd(counter, "0x1")
    /\ raws' = Append(raws, Ev.out)
    /\ UNCHANGED <<digest, queries>>

Sample(r, size) == BNMod(BNLowBits(r, 128), size)
RECURSIVE SortStr(_)
SortStr(T) == IF T = {} THEN <<>> ELSE LET m == CHOOSE m \in T : \A y \in T : BNLeq(m, y) IN <<m>> \o SortStr(T \ {m})

QueriesEv ==
    /\ Is("queries") /\ Consume
    /\ BNFitsInt(Ev.n) /\ Len(raws) = BNToInt(Ev.n)          \* exactly n squeezes were consumed
    /\ Ev.out = SortStr({Sample(raws[i], Ev.bound) : i \in 1..Len(raws)})
    \* the property itself, on the value the code returned
    /\ \A i \in 1..Len(Ev.out) : BNLt(Ev.out[i], Ev.bound)
    /\ \A i \in 1..(Len(Ev.out) - 1) : BNLt(Ev.out[i], Ev.out[i + 1])
    /\ Len(Ev.out) <= Len(raws)
    /\ queries' = Ev.out /\ raws' = <<>> /\ UNCHANGED <<digest, counter>>

\* the caller-visible return value must be the hooked one
QueriesRet ==
    /\ Is("queries.ret") /\ Consume
    /\ Ev.out = queries
    /\ ("counter_after" \in DOMAIN Ev => Ev.counter_after = counter)     \* the transcript advanced by exactly the samples drawn
    /\ UNCHANGED <<raws, digest, counter, queries>>

PointsEv ==
    /\ Is("points") /\ Consume
    /\ BNFitsInt(Ev.log_eval) /\ BNToInt(Ev.log_eval) <= 64
    /\ LET k == BNToInt(Ev.log_eval)
           w == RootOfUnity(k) IN
       /\ Ev.gen = w
       /\ Len(Ev.pts) = Len(Ev.q)
       /\ \A i \in 1..Len(Ev.q) : Ev.pts[i] = FMul("0x3", FPow(w, BNBitRev(Ev.q[i], k)))
    /\ UNCHANGED <<raws, digest, counter, queries>>
PointsRet ==
    /\ Is("points.ret") /\ Consume
    /\ l > 1 /\ Rec[l - 1].ev = "points" /\ Ev.pts = Rec[l - 1].pts
    /\ UNCHANGED <<raws, digest, counter, queries>>

Next == Reset \/ Squeeze \/ QueriesEv \/ QueriesRet \/ PointsEv \/ PointsRet
=============================================================================
