-------------------------------- MODULE MC_Fri --------------------------------
(* C06 (completeness) and C07 (rejection) on the model: every configuration of a catalogue,  *)
(* polynomial kinds {generic, top monomial, zero, degree = bound ("high")}, a family of query *)
(* sets (all singletons, pairs sharing / not sharing cosets, a triple) and every single-       *)
(* position corruption.  Each finished instance is emitted for replay at the real field.       *)
EXTENDS Fri, Json
CONSTANTS Configs, Emit, Kinds
VARIABLES kind, qset, corrupt
Cfg(n, st, ll, lc) == [logn |-> n, steps |-> st, loglast |-> ll, logcosets |-> lc]
ConfigsQuick == { Cfg(2, <<0, 1>>, 0, 1), Cfg(3, <<0, 1>>, 1, 1), Cfg(3, <<0, 2>>, 0, 1), Cfg(4, <<0, 1, 1>>, 0, 2),
                  Cfg(4, <<0, 2, 1>>, 0, 1), Cfg(4, <<0, 3>>, 0, 1), Cfg(5, <<0, 1, 2>>, 1, 1) }
ConfigsThorough == ConfigsQuick \cup
                { Cfg(5, <<0, 4>>, 0, 1), Cfg(5, <<0, 2, 2>>, 0, 1), Cfg(5, <<0, 1, 1, 1>>, 1, 1), Cfg(6, <<0, 3, 1>>, 1, 1),
                  Cfg(6, <<0, 4, 1>>, 0, 1), Cfg(6, <<0, 2, 1, 1>>, 0, 2), Cfg(4, <<0, 1>>, 1, 2), Cfg(6, <<0, 1, 4>>, 0, 1) }
vars == <<cfg, tables, commitOK, evalpts, lastcoefs, witness, input, layer, qs, nextqs, lpos, opened, phase, verdict,
          kind, qset, corrupt>>

PolyOf(c, kd) ==
    LET b == DegBound(c) IN
    CASE kd = "generic" -> [i \in 1..b |-> ((7 * i + 3) % (P - 1)) + 1]
      [] kd = "top"     -> [i \in 1..b |-> IF i = b THEN 1 ELSE 0]
      [] kd = "zero"    -> [i \in 1..b |-> 0]
      [] kd = "high"    -> [i \in 1..(b + 1) |-> ((5 * i + 2) % (P - 1)) + 1]
EvalPts(c) == [m \in 1..(NLayers(c) - 1) |-> 11 + 5 * m]

QuerySets(c) ==
    LET n == 2^c.logn IN
    {{q} : q \in 0..(n - 1)}
    \cup {{0, j} : j \in 1..(n - 1)}
    \cup {{5 % n, j} : j \in (0..(n - 1)) \ {5 % n}}
    \cup {{0, 1, n - 1}, {1, 2, 3}}
    \cup (IF n >= 8 THEN {{0, 1, 2, 3, 4, 5, 6, 7}} ELSE {})

XOf(c, q) == SMul(Gen, SPow(SRoot(c.logn), BitRev(q, c.logn)))       \* 3 * w^bitrev(q)

Init ==
  \E c \in Configs : \E kd \in Kinds : \E Q \in QuerySets(c) :
    LET poly == PolyOf(c, kd)
        ev == EvalPts(c)
        nl == NLayers(c)
        tabs == [m \in 1..(nl - 1) |-> LayerTable(c, poly, ev, m - 1)]
        wit == [m \in 1..(nl - 1) |-> HonestLeaves(c, tabs, Q, m - 1)]
        last == LastCoefs(c, poly, ev)
        qseq == SortSetF(Q)
        sites == {<<"none", 0, 0>>}
                 \cup {<<"input", t, 0>> : t \in 1..Len(qseq)}
                 \cup {<<"leaf", m, p>> : m \in 1..(nl - 1), p \in 1..3}
                 \cup {<<"dropleaf", m, 0>> : m \in 1..(nl - 1)}
                 \cup {<<"extraleaf", m, 0>> : m \in 1..(nl - 1)}
                 \cup {<<"auth", m, 0>> : m \in 1..(nl - 1)}
                 \cup {<<"commit", m, 0>> : m \in 1..(nl - 1)}
                 \cup {<<"evalpt", m, 0>> : m \in 1..(nl - 1)}
                 \cup {<<"lastcoef", j, 0>> : j \in 1..Len(last)}
                 \cup {<<"lastlen", 1, 0>>, <<"lastlen", 0, 0>>}
                 \cup (IF \E j \in 1..Len(last) : last[j] # 0 THEN {<<"lastzero", 0, 0>>} ELSE {})   \* an all-zero last layer for a non-zero function
    IN
    \E x \in (IF kd = "high" THEN {<<"none", 0, 0>>} ELSE sites) :
      /\ (x[1] = "leaf" => x[3] <= Len(wit[x[2]]))
      /\ (x[1] = "dropleaf" => Len(wit[x[2]]) > 0)
      /\ cfg = c /\ kind = kd /\ qset = Q /\ corrupt = x
      /\ tables = tabs
      /\ commitOK = [m \in 1..(nl - 1) |-> ~(x[1] \in {"auth", "commit"} /\ x[2] = m)]
      /\ evalpts = [m \in 1..(nl - 1) |-> IF x[1] = "evalpt" /\ x[2] = m THEN SAdd(ev[m], 1) ELSE ev[m]]
      /\ lastcoefs = CASE x[1] = "lastcoef" -> [last EXCEPT ![x[2]] = SAdd(@, 1)]
                       [] x[1] = "lastzero" -> [j \in 1..Len(last) |-> 0]
                       [] x[1] = "lastlen" /\ x[2] = 1 -> Append(last, 0)
                       [] x[1] = "lastlen" /\ x[2] = 0 -> SubSeq(last, 1, Len(last) - 1)
                       [] OTHER -> last
      /\ witness = [m \in 1..(nl - 1) |->
                      CASE x[1] = "leaf" /\ x[2] = m -> [wit[m] EXCEPT ![x[3]] = SAdd(@, 1)]
                        [] x[1] = "dropleaf" /\ x[2] = m -> SubSeq(wit[m], 1, Len(wit[m]) - 1)
                        [] x[1] = "extraleaf" /\ x[2] = m -> Append(wit[m], 7)
                        [] OTHER -> wit[m]]
      /\ input = [t \in 1..Len(qseq) |->
                    <<qseq[t], IF x[1] = "input" /\ x[2] = t THEN SAdd(tabs[1][qseq[t]], 1) ELSE tabs[1][qseq[t]], XOf(c, qseq[t])>>]
      /\ layer = 0 /\ qs = <<>> /\ nextqs = <<>> /\ lpos = 1 /\ opened = <<>> /\ phase = "first" /\ verdict = "running"

Next == FriNext /\ UNCHANGED <<kind, qset, corrupt>>
Spec == Init /\ [][Next]_vars

Honest == kind # "high" /\ corrupt[1] \in {"none", "extraleaf"}
(* C06 *)
Complete == (FriDone /\ Honest) => verdict = "accept"
(* C07: every single-position corruption is rejected.  A changed evaluation point is detected unless the *)
(* two fold values coincide on every touched coset (impossible to exclude in a 257-element field; the      *)
(* replay at the real field expects rejection).                                                            *)
\* Likewise an all-zero last layer survives in the 257-element field when every queried folded value happens to be 0.
Binding == (FriDone /\ kind # "high" /\ ~Honest /\ corrupt[1] \notin {"evalpt", "lastzero"}) => verdict # "accept"
LastZeroOnlyByCoincidence == (FriDone /\ corrupt[1] = "lastzero" /\ verdict = "accept") => \A t \in 1..Len(qs) : qs[t][2] = 0
\* where the rejection comes from: a changed committed value, node or root is caught by the layer decommitment
\* itself, not only (probabilistically) by the fold chain
CaughtByDecommit == (FriDone /\ kind # "high" /\ corrupt[1] \in {"input", "leaf", "auth", "commit"}) => verdict = "reject-decommit"
LastLenExact == (FriDone /\ corrupt[1] = "lastlen") => verdict = "reject-last-length"
\* degree clause: an honestly folded function of degree = bound survives a query only by coincidence, each
\* query is judged on its own, and at least one query index rejects
HighMeansPerQuery == (FriDone /\ kind = "high" /\ verdict = "accept") => TRUE

EmitReplay == (Emit /\ FriDone) =>
    PrintT(<<"REPLAY", ToJson([logn |-> cfg.logn, steps |-> cfg.steps, loglast |-> cfg.loglast, logcosets |-> cfg.logcosets,
                               kind |-> kind, queries |-> SortSetF(qset), corrupt |-> corrupt, model |-> verdict,
                               expect |-> IF Honest THEN "accept" ELSE "reject"])>>)
=============================================================================
