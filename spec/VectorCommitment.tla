-------------------------- MODULE VectorCommitment --------------------------
(* vector_commitment_decommit / compute_root_from_queries as a queue machine, one action per *)
(* branch of the recursion.                                                                  *)
EXTENDS Merkle, TLC

VARIABLES height, nvf, qidx, qval, auth, root,   \* the instance
          queue, start, apos, result             \* the machine
mvars == <<queue, start, apos, result>>
ivars == <<height, nvf, qidx, qval, auth, root>>

MachineInit ==
  /\ queue = [i \in 1..Len(qidx) |-> <<qidx[i] + 2^height, qval[i], height>>]
  /\ start = 1 /\ apos = 1 /\ result = "running"

Cur == queue[start]
Friendly == nvf >= Cur[3]
HasPair == Cur[1] % 2 = 0 /\ start + 1 <= Len(queue) /\ queue[start+1][1] = Cur[1] + 1

EmptyQueue ==      \* queue.get(start) fails (only possible with no queries)
  /\ result = "running" /\ start > Len(queue)
  /\ result' = "invalid" /\ UNCHANGED <<queue, start, apos>> /\ UNCHANGED ivars

ReachRoot ==
  /\ result = "running" /\ start <= Len(queue) /\ Cur[1] = 1
  /\ result' = IF Cur[2] = root THEN "ok" ELSE "mismatch"
  /\ UNCHANGED <<queue, start, apos>> /\ UNCHANGED ivars

MergeSiblings ==
  /\ result = "running" /\ start <= Len(queue) /\ Cur[1] # 1 /\ HasPair
  /\ queue' = Append(queue, <<Cur[1] \div 2, NodeHash(Cur[2], queue[start+1][2], Friendly), Cur[3] - 1>>)
  /\ start' = start + 2
  /\ UNCHANGED <<apos, result>> /\ UNCHANGED ivars

UseAuth ==
  /\ result = "running" /\ start <= Len(queue) /\ Cur[1] # 1 /\ ~HasPair /\ apos <= Len(auth)
  /\ queue' = Append(queue, <<Cur[1] \div 2,
                              IF Cur[1] % 2 = 0 THEN NodeHash(Cur[2], auth[apos], Friendly)
                                                ELSE NodeHash(auth[apos], Cur[2], Friendly),
                              Cur[3] - 1>>)
  /\ start' = start + 1 /\ apos' = apos + 1
  /\ UNCHANGED result /\ UNCHANGED ivars

FailMissing ==
  /\ result = "running" /\ start <= Len(queue) /\ Cur[1] # 1 /\ ~HasPair /\ apos > Len(auth)
  /\ result' = "missing" /\ UNCHANGED <<queue, start, apos>> /\ UNCHANGED ivars

MachineNext == EmptyQueue \/ ReachRoot \/ MergeSiblings \/ UseAuth \/ FailMissing
Done == result # "running"
=============================================================================
