----------------------------- MODULE BigField -----------------------------
(* Signature of the Java module override BigField.class (see BigField.java).           *)
(* Numbers are strings "0x<hex>" in canonical form; byte strings are hex, no prefix.  *)
(* The TLA+ bodies below are placeholders: TLC replaces every operator by the Java    *)
(* method of the same name.  MC_BigFieldCheck validates the override against pure     *)
(* TLA+ definitions on a small modulus and against algebraic laws at the real prime.  *)
LOCAL INSTANCE Naturals
BMAdd(a, b, p) == CHOOSE x \in {} : TRUE
BMSub(a, b, p) == CHOOSE x \in {} : TRUE
BMMul(a, b, p) == CHOOSE x \in {} : TRUE
BMPow(a, e, p) == CHOOSE x \in {} : TRUE
BMInv(a, p)    == CHOOSE x \in {} : TRUE
BMNorm(a, p)   == CHOOSE x \in {} : TRUE
BNOf(n)        == CHOOSE x \in {} : TRUE
BNAdd(a, b)    == CHOOSE x \in {} : TRUE
BNSub(a, b)    == CHOOSE x \in {} : TRUE
BNMul(a, b)    == CHOOSE x \in {} : TRUE
BNDiv(a, b)    == CHOOSE x \in {} : TRUE
BNMod(a, b)    == CHOOSE x \in {} : TRUE
BNPow2(k)      == CHOOSE x \in {} : TRUE
BNLeq(a, b)    == CHOOSE x \in {} : TRUE
BNLt(a, b)     == CHOOSE x \in {} : TRUE
BNEq(a, b)     == CHOOSE x \in {} : TRUE
BNFitsInt(a)   == CHOOSE x \in {} : TRUE
BNToInt(a)     == CHOOSE x \in {} : TRUE
BNBitLen(a)    == CHOOSE x \in {} : TRUE
BNIsPow2(a)    == CHOOSE x \in {} : TRUE
BNBitRev(a, n) == CHOOSE x \in {} : TRUE
BNDilute(j, s) == CHOOSE x \in {} : TRUE     \* j an integer: bit i of j moved to position i*s
BNLowBits(a, n) == CHOOSE x \in {} : TRUE
BHLen(h)       == CHOOSE x \in {} : TRUE
BHCat(a, b)    == CHOOSE x \in {} : TRUE
BHSlice(h, from, to) == CHOOSE x \in {} : TRUE
BHToNat(h)     == CHOOSE x \in {} : TRUE
BHOfNat(n, nbytes) == CHOOSE x \in {} : TRUE
BHLeadingZeroBits(h) == CHOOSE x \in {} : TRUE
=============================================================================
