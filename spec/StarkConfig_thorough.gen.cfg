CONSTANT P = 12289
CONSTANT GuardsFixed = TRUE
CONSTANT MaxDevs = 2
CONSTANT Emit = TRUE
INIT Init
NEXT Next
INVARIANT Exact
INVARIANT EmitReplay
CHECK_DEADLOCK FALSE
