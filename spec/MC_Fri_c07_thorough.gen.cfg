CONSTANT P = 257
CONSTANT Gen = 3
CONSTANT Emit = TRUE
CONSTANT Kinds = {"generic", "top", "zero", "high"}
CONSTANT Configs <- ConfigsThorough
SPECIFICATION Spec
INVARIANT Complete
INVARIANT Binding
INVARIANT CaughtByDecommit
INVARIANT LastLenExact
INVARIANT LastZeroOnlyByCoincidence
INVARIANT EmitReplay
CHECK_DEADLOCK FALSE
