---------------------------- MODULE Trace_Linear ----------------------------
(* C16: the composition evaluator and the DEEP evaluator are linear forms in their coefficient  *)
(* vector:  Eval(c) = sum_i c_i * Eval(e_i),  Eval(0) = 0,  and Eval(e_i) # 0 for every position *)
(* i whose constraint belongs to a component the layout instance uses (field `used`, 1-based).  *)
(* Polynomial identity testing at random points: a dropped, duplicated or shared coefficient     *)
(* survives a random point with probability <= degree / p.                                       *)
EXTENDS TraceLib, StarkField
vars == <<l>>
Init == l = 1
RECURSIVE Dot(_, _, _)
Dot(c, t, i) == IF i > Len(c) THEN "0x0" ELSE FAdd(FMul(c[i], t[i]), Dot(c, t, i + 1))
LinearEv ==
    /\ Is("linear") /\ Consume
    /\ Len(Ev.units) = Ev.n
    /\ Ev.zero = "0x0"
    /\ Len(Ev.rand) >= 2
    /\ \A r \in 1..Len(Ev.rand) : Len(Ev.rand[r].c) = Ev.n /\ Ev.rand[r].out = Dot(Ev.rand[r].c, Ev.units, 1)
    /\ \A i \in 1..Len(Ev.used) : Ev.units[Ev.used[i]] # "0x0"
    \* constraints of a component the instance does not use are absent from the composition
    /\ \A i \in 1..Len(Ev.unused) : Ev.units[Ev.unused[i]] = "0x0"
Next == LinearEv \/ (Is("reset") /\ Consume)
=============================================================================
