CONSTANT Emit = TRUE
CONSTANT PoolSize = 7
SPECIFICATION Spec
INVARIANT Faithful
INVARIANT EmitReplay
CHECK_DEADLOCK FALSE
