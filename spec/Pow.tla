--------------------------------- MODULE Pow ---------------------------------
(* Proof of work (crates/pow/src/pow.rs, config.rs), byte level.                           *)
(*   h1 = H(0x0123456789abcded || digest (32 bytes) || n_bits (1 byte))     41 bytes        *)
(*   h2 = H(h1 || nonce (8 bytes, big endian))                              40 bytes        *)
(*   accepted  <=>  h2 starts with n_bits zero bits                                          *)
(* H is the build's Keccak-256 / Blake2s-256: never computed by TLC; its applications are    *)
(* recorded by the code and re-computed by the harness with an independent primitive (hok). *)
EXTENDS Naturals, BigField

Magic == "0123456789abcded"
InitPreimage(digest, nbits) == BHCat(BHCat(Magic, digest), BHOfNat(BNOf(nbits), 1))
FinalPreimage(h1, nonce)    == BHCat(h1, BHOfNat(nonce, 8))

\* the property's statement
Accept(h2, nbits) == BHLeadingZeroBits(h2) >= nbits
\* the code's formulation: the first 16 bytes, read as a big-endian integer, are < 2^(128 - n_bits)
CodeAccept(h2, nbits) == BNLt(BHToNat(BHSlice(h2, 0, 16)), BNPow2(128 - nbits))

ConfigValid(nbits) == nbits >= 20 /\ nbits <= 50
=============================================================================
