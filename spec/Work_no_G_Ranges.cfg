CONSTANT G_Ranges = FALSE
CONSTANT G_FriRanges = TRUE
SPECIFICATION Spec
INVARIANT WorkBounded
CHECK_DEADLOCK FALSE
