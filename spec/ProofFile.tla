------------------------------ MODULE ProofFile ------------------------------
(* C19: what the parser must extract from a Stone proof file's annotation stream.           *)
(* The annotations are the prover's log of the channel, one line per message; a line has a   *)
(* path (which protocol object), a kind (Hash, Data, Field Element, Field Elements) and       *)
(* values.  The proof handed to the verifier is obtained by *filtering the stream in order*:  *)
(* each field is the concatenation, in stream order, of the values of the lines of its class. *)
EXTENDS Naturals, Sequences, FiniteSets, TLC

\* a token: <<class, kind, values>>
Class(t) == t[1]
Kind(t)  == t[2]
Vals(t)  == t[3]

RECURSIVE Collect(_, _, _)
\* values of the tokens whose class is c and whose kind is in ks, in stream order
Collect(stream, c, ks) ==
    IF stream = <<>> THEN <<>>
    ELSE (IF Class(Head(stream)) = c /\ Kind(Head(stream)) \in ks THEN Vals(Head(stream)) ELSE <<>>) \o Collect(Tail(stream), c, ks)
First(s) == IF s = <<>> THEN <<>> ELSE <<s[1]>>

\* nInner = number of FRI layers with a commitment (n_layers - 1)
Parse(stream, nInner) ==
  [ c_orig   |-> First(Collect(stream, <<"c_orig", 0>>, {"Hash"})),
    c_inter  |-> First(Collect(stream, <<"c_inter", 0>>, {"Hash"})),
    c_comp   |-> First(Collect(stream, <<"c_comp", 0>>, {"Hash"})),
    oods     |-> Collect(stream, <<"oods", 0>>, {"Field Elements"}),
    fri_commits |-> Collect(stream, <<"fri_commit", 0>>, {"Hash"}),
    last     |-> Collect(stream, <<"last", 0>>, {"Field Elements"}),
    nonce    |-> First(Collect(stream, <<"pow", 0>>, {"Data"})),
    t0_leaves |-> Collect(stream, <<"t0", 0>>, {"Field Element"}),
    t0_auth   |-> Collect(stream, <<"t0", 0>>, {"Data", "Hash"}),       \* authentication nodes: both kinds, in stream order
    t1_leaves |-> Collect(stream, <<"t1", 0>>, {"Field Element"}),
    t1_auth   |-> Collect(stream, <<"t1", 0>>, {"Data", "Hash"}),
    t2_leaves |-> Collect(stream, <<"t2", 0>>, {"Field Element"}),
    t2_auth   |-> Collect(stream, <<"t2", 0>>, {"Data", "Hash"}),
    fri_leaves |-> [k \in 1..nInner |-> Collect(stream, <<"fri", k>>, {"Field Element"})],
    fri_auth   |-> [k \in 1..nInner |-> Collect(stream, <<"fri", k>>, {"Hash"})] ]
\* well-formedness: the three commitments and the nonce must be present
WellFormed(p) == p.c_orig # <<>> /\ p.c_inter # <<>> /\ p.c_comp # <<>> /\ p.nonce # <<>>
=============================================================================
