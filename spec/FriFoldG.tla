------------------------------ MODULE FriFoldG ------------------------------
(* FRI folding, generic in the field (instantiated with SmallField for exhaustive checks   *)
(* and with StarkField for trace validation at the real prime).                            *)
(*                                                                                         *)
(* A coset of size 2^k of the layer domain is  { x0 * g^bitrev(i,k) : i in 0..2^k-1 },     *)
(* g of order 2^k; the verifier holds v[i] = f(x0 * g^bitrev(i,k)) (0-based i, here 1-based *)
(* sequences), x_inv = 1/x0 and the challenge b.                                           *)
(*   FoldButterfly : the recursion of crates/fri/src/formula.rs (fri_formula2/4/8/16)       *)
(*   FoldDef       : sum_i v[i] * sum_j (b / x_i)^j  -- no recursion, straight from the     *)
(*                   interpolation formula; equals 2^k * sum_j b^j P_j(x0^(2^k)) where       *)
(*                   f(x) = sum_j x^j P_j(x^(2^k))                                          *)
EXTENDS Naturals, Sequences
CONSTANTS Add(_, _), Sub(_, _), Mul(_, _), Inv(_), Zero, One,
          RootOf(_),       \* RootOf(k): the primitive 2^k-th root of unity g_k = Gen^((p-1)/2^k)
          BitRevOp(_, _)   \* bit reversal on Nat

RECURSIVE PowN(_, _)
PowN(a, n) == IF n = 0 THEN One ELSE IF n % 2 = 0 THEN PowN(Mul(a, a), n \div 2) ELSE Mul(a, PowN(a, n - 1))

\* the 2^k group elements in bit-reversed order (1-based sequence): g_k^bitrev(i-1, k)
GroupBR(k) == [i \in 1..(2^k) |-> PowN(RootOf(k), BitRevOp(i - 1, k))]
\* OMEGA_{2^k} of formula.rs: the inverse of the primitive 2^k-th root
Omega(k) == Inv(RootOf(k))

Fold2(fx, fmx, b, xinv) == Add(Add(fx, fmx), Mul(Mul(b, xinv), Sub(fx, fmx)))

RECURSIVE FoldButterfly(_, _, _, _, _)
\* v: sequence; off: 0-based offset of the sub-block of size 2^k
FoldButterfly(v, off, k, b, xinv) ==
  IF k = 1 THEN Fold2(v[off + 1], v[off + 2], b, xinv)
  ELSE LET h  == 2^(k - 1)
           g0 == FoldButterfly(v, off,     k - 1, b, xinv)
           g1 == FoldButterfly(v, off + h, k - 1, b, Mul(xinv, Omega(k)))
       IN Fold2(g0, g1, PowN(b, h), PowN(xinv, h))

RECURSIVE SumTo(_, _, _)
\* sum_{j=0}^{n-1} r^j
SumTo(r, n, acc) == IF n = 0 THEN acc ELSE SumTo(r, n - 1, Add(One, Mul(r, acc)))
GeomSum(r, n) == SumTo(r, n, Zero)

RECURSIVE FoldDefAcc(_, _, _, _, _, _)
FoldDefAcc(v, k, b, xinv, grp, i) ==
  IF i > 2^k THEN Zero
  ELSE Add(Mul(v[i], GeomSum(Mul(b, Mul(xinv, Inv(grp[i]))), 2^k)), FoldDefAcc(v, k, b, xinv, grp, i + 1))
FoldDef(v, k, b, xinv) == FoldDefAcc(v, k, b, xinv, GroupBR(k), 1)
=============================================================================
