CONSTANT Stone6 = TRUE
CONSTANT Emit = TRUE
CONSTANT Small = FALSE
INIT Init
NEXT Next
INVARIANT Binds
INVARIANT EmitReplay
CHECK_DEADLOCK FALSE
