CONSTANT Emit = TRUE
CONSTANT PoolSize = 8
CONSTANT NInner = 1
SPECIFICATION Spec
INVARIANT Faithful
INVARIANT LayersFaithful
INVARIANT EmitReplay
CHECK_DEADLOCK FALSE
