---------------------------- MODULE MC_PublicInput ----------------------------
(* C14 on a small layout: every deviation of a valid public input from a labelled catalogue   *)
(* (the labels are instantiated per real layout by the harness) with the verdict of ValidPI,    *)
(* and every main-page perturbation with the verdict of ProgramOutputOK.                        *)
EXTENDS PublicInput, TLC, Json
\* model layout: 4 trace rows per step, builtin 1: 3 cells / row ratio 8, builtin 2: 1 cell / row ratio 4
L == [cpuRows |-> 4, nSegments |-> 5, maxLogSteps |-> 6, maxRC |-> 9,
      builtins |-> <<[seg |-> 4, cells |-> 3, rowRatio |-> 8], [seg |-> 5, cells |-> 1, rowRatio |-> 4],
                     [seg |-> 6, cells |-> 2, rowRatio |-> 4, enabled |-> FALSE]>>]      \* builtin 3: switched off, with a row ratio left set
Base == [logSteps |-> 3, logTrace |-> 5, nSegments |-> 5, layoutOK |-> TRUE, rcMin |-> 2, rcMax |-> 7, usage |-> <<3, 2, 0>>]
Copies(n, i) == (2^n.logTrace) \div L.builtins[i].rowRatio
Simple == {"none", "logSteps+ord2", "logSteps+1", "logTrace+1", "logSteps=max-1,consistent", "logSteps=max,consistent", "segments-1", "segments+1", "layoutCode+1",
           "rc:min>max", "rc:min=max", "rc:max=limit", "rc:max=limit+1", "rc:min=-1", "tinyTrace,usage=0", "tinyTrace,usage=1inst"}
Devs == {<<"simple", 0, x>> : x \in Simple}
        \cup {<<"usage", i, u>> : i \in 1..2, u \in {"0", "1inst", "1inst+1cell", "copies", "copies+1", "-1cell", "-1inst"}}
        \cup {<<"usage", 3, u>> : u \in {"0", "1inst"}}
Apply(dd) ==
  IF dd[1] = "simple" THEN LET d == dd[3] IN
  CASE d = "none" -> Base
    [] d = "logSteps+1" -> [Base EXCEPT !.logSteps = 4]
    \* a huge declared exponent with 2^logSteps unchanged in the field (the harness adds the multiplicative order of 2): the
    \* bound is on the declared exponent, not on the power
    [] d = "logSteps+ord2" -> [Base EXCEPT !.logSteps = 1003]
    [] d = "logTrace+1" -> [Base EXCEPT !.logTrace = 6]
    [] d = "logSteps=max-1,consistent" -> [Base EXCEPT !.logSteps = 5, !.logTrace = 7, !.usage = <<0, 0, 0>>]
    [] d = "logSteps=max,consistent" -> [Base EXCEPT !.logSteps = 6, !.logTrace = 8, !.usage = <<0, 0, 0>>]
    [] d = "segments-1" -> [Base EXCEPT !.nSegments = 4]
    [] d = "segments+1" -> [Base EXCEPT !.nSegments = 6]
    [] d = "layoutCode+1" -> [Base EXCEPT !.layoutOK = FALSE]
    [] d = "rc:min>max" -> [Base EXCEPT !.rcMin = 8]
    [] d = "rc:min=max" -> [Base EXCEPT !.rcMin = 7]
    [] d = "rc:max=limit" -> [Base EXCEPT !.rcMax = 9]
    [] d = "rc:max=limit+1" -> [Base EXCEPT !.rcMax = 10]
    [] d = "rc:min=-1" -> [Base EXCEPT !.rcMin = 0 - 1 + 0]
    [] d = "tinyTrace,usage=0" -> [Base EXCEPT !.logSteps = 0, !.logTrace = 2, !.usage = <<0, 0, 0>>]
    [] d = "tinyTrace,usage=1inst" -> [Base EXCEPT !.logSteps = 0, !.logTrace = 2, !.usage = <<3, 0, 0>>]
  ELSE LET d == dd IN
            LET i == d[2]  c == L.builtins[i].cells  u == d[3]
                    v == CASE u = "0" -> 0 [] u = "1inst" -> c [] u = "1inst+1cell" -> c + 1 [] u = "copies" -> Copies(Base, i) * c
                           [] u = "copies+1" -> (Copies(Base, i) + 1) * c [] u = "-1cell" -> 0 - 1 [] u = "-1inst" -> 0 - c
                IN [Base EXCEPT !.usage[i] = v]
\* "rc:min=-1": the code sees p - 1; as an integer reading it violates min < max as well
VARIABLES dev, pagedev
Page0 == <<<<1, 10>>, <<2, 11>>, <<3, 12>>, <<7, 13>>, <<20, 14>>, <<21, 15>>>>     \* program 1..3, one other cell, output 20..21
\* the same page without output cells, for an empty output segment [20, 20)
Page1 == <<<<1, 10>>, <<2, 11>>, <<3, 12>>, <<7, 13>>>>
EoDevs == {"eo:none", "eo:keep-1", "eo:empty", "eo:drop-last", "eo:drop-program-tail", "eo:addr+1@program"}
\* deviations of the segment declarations (and, for the relocation, of the page with them)
SegDevs == {"seg:relocate+1", "seg:relocate+1,stop-kept", "seg:program.begin+1", "seg:program.stop+1", "seg:program.stop-1", "seg:initial_ap=max",
            "seg:final_ap=max", "seg:final_ap=max-1", "seg:header", "seg:output.stop+1", "seg:output.stop-1", "seg:execution.begin-1"}
\* (execution.begin+1 / output.begin-1 are not in the catalogue: on real pages the neighbouring cells are consecutive, so they
\*  declare a different, equally well-formed statement; the model page has a gap there)
MaxAddr == 1000
Segs0 == [prog |-> <<1, 5>>, exec |-> <<6, 10>>, out |-> <<20, 22>>]
SegsOf(d) ==
  CASE d \in EoDevs -> [Segs0 EXCEPT !.out = <<20, 20>>]
    [] d = "seg:relocate+1" -> [Segs0 EXCEPT !.prog = <<2, 6>>]
    [] d = "seg:relocate+1,stop-kept" -> [Segs0 EXCEPT !.prog = <<2, 5>>]
    [] d = "seg:program.begin+1" -> [Segs0 EXCEPT !.prog = <<2, 5>>]
    [] d = "seg:program.stop+1" -> [Segs0 EXCEPT !.prog = <<1, 6>>]
    [] d = "seg:program.stop-1" -> [Segs0 EXCEPT !.prog = <<1, 4>>]
    [] d = "seg:initial_ap=max" -> [Segs0 EXCEPT !.exec = <<MaxAddr, 10>>]
    [] d = "seg:final_ap=max" -> [Segs0 EXCEPT !.exec = <<6, MaxAddr>>]
    [] d = "seg:final_ap=max-1" -> [Segs0 EXCEPT !.exec = <<6, MaxAddr - 1>>]
    [] d = "seg:output.stop+1" -> [Segs0 EXCEPT !.out = <<20, 23>>]
    [] d = "seg:output.stop-1" -> [Segs0 EXCEPT !.out = <<20, 21>>]
    [] d = "seg:execution.begin-1" -> [Segs0 EXCEPT !.exec = <<5, 10>>]
    [] OTHER -> Segs0
HeadersOf(d) == IF d = "seg:header" THEN 1 ELSE 0
PageDevs == EoDevs \cup SegDevs \cup {"none", "shift-all", "addr+1@program", "addr+1@output", "drop-first", "drop-last", "drop-program-cell", "keep-1", "empty",
             "swap-program-cells", "append-after-output", "insert-middle", "value+1@program"}
PageOf(d) ==
  CASE d = "none" -> Page0
    [] d = "shift-all" -> [i \in 1..6 |-> <<Page0[i][1] + 1000, Page0[i][2]>>]
    [] d = "addr+1@program" -> [Page0 EXCEPT ![2] = <<5, 11>>]
    [] d = "addr+1@output" -> [Page0 EXCEPT ![6] = <<22, 15>>]
    [] d = "drop-first" -> SubSeq(Page0, 2, 6)
    [] d = "drop-last" -> SubSeq(Page0, 1, 5)
    [] d = "drop-program-cell" -> <<Page0[1], Page0[3], Page0[4], Page0[5], Page0[6]>>
    [] d = "keep-1" -> <<Page0[1]>>
    [] d = "empty" -> <<>>
    [] d = "swap-program-cells" -> [Page0 EXCEPT ![1] = Page0[2], ![2] = Page0[1]]
    [] d = "append-after-output" -> Append(Page0, <<30, 16>>)
    [] d = "insert-middle" -> <<Page0[1], Page0[2], Page0[3], Page0[4], <<9, 99>>, Page0[5], Page0[6]>>
    [] d = "value+1@program" -> [Page0 EXCEPT ![2] = <<2, 12>>]
    [] d \in {"seg:relocate+1", "seg:relocate+1,stop-kept"} -> SubSeq(Page0, 2, 6)
    [] d \in SegDevs -> Page0
    [] d = "eo:none" -> Page1
    [] d = "eo:keep-1" -> <<Page1[1]>>
    [] d = "eo:empty" -> <<>>
    [] d = "eo:drop-last" -> SubSeq(Page1, 1, 3)
    [] d = "eo:drop-program-tail" -> SubSeq(Page1, 1, 2)
    [] d = "eo:addr+1@program" -> [Page1 EXCEPT ![2] = <<5, 11>>]
Init == dev \in Devs /\ pagedev \in PageDevs
Next == UNCHANGED <<dev, pagedev>>
Valid == ValidPI(Apply(dev), L)
PageOK == VerifyPIOK(PageOf(pagedev), SegsOf(pagedev), HeadersOf(pagedev), MaxAddr)
\* the segment rules are not vacuous: the relocated program satisfies the page rule and is rejected by the segment rule alone
SegRuleNeeded == LET sg == SegsOf("seg:relocate+1") pg == PageOf("seg:relocate+1") IN
                 /\ ProgramOutputOK(pg, sg.prog[1], sg.exec[1] - 2 - sg.prog[1], sg.out[1], sg.out[2] - sg.out[1])
                 /\ ~VerifyPIOK(pg, sg, 0, MaxAddr)
                 /\ VerifyPIOK(PageOf("seg:execution.begin-1"), SegsOf("seg:execution.begin-1"), 0, MaxAddr)
\* sanity of the catalogue: the base is valid, and both outcomes occur
BaseValid == ValidPI(Base, L) /\ VerifyPIOK(Page0, Segs0, 0, MaxAddr) /\ SegRuleNeeded
Emit == PrintT(<<"REPLAY", ToJson([dev |-> dev, valid |-> Valid, pagedev |-> pagedev, pageok |-> PageOK,
                                   samehash |-> pagedev \in {"none", "insert-middle", "eo:none", "eo:drop-last", "seg:final_ap=max-1"}])>>)
=============================================================================
