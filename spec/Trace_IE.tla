------------------------------ MODULE Trace_IE ------------------------------
(* C08, interaction elements: after the first trace commitment the layout draws its           *)
(* interaction elements, one squeeze each, in the order of the Cairo verifier's element list;   *)
(* the element *named* n must be the squeeze at n's position (a swapped assignment gives every   *)
(* constraint that uses the element the wrong challenge).                                        *)
EXTENDS TraceLib, StarkField
VARIABLES dig, ctr, outs
vars == <<l, dig, ctr, outs>>
Init == l = 1 /\ dig = "none" /\ ctr = "0x0" /\ outs = <<>>
\* element names in draw order
Memory == <<"memory_multi_column_perm_perm_interaction_elm", "memory_multi_column_perm_hash_interaction_elm0">>
Order(layout) ==
    CASE layout \in {"dex", "small"} -> Memory \o <<"range_check16_perm_interaction_elm">>
      [] layout \in {"recursive", "recursive_with_poseidon", "starknet", "starknet_with_keccak"} ->
            Memory \o <<"range_check16_perm_interaction_elm", "diluted_check_permutation_interaction_elm", "diluted_check_interaction_z", "diluted_check_interaction_alpha">>
      [] layout = "dynamic" ->
            Memory \o <<"range_check16_perm_interaction_elm", "diluted_check_permutation_interaction_elm", "diluted_check_interaction_z", "diluted_check_interaction_alpha",
                        "add_mod_interaction_elm", "mul_mod_interaction_elm">>
Reset == Is("reset") /\ Consume /\ dig' = "none" /\ ctr' = "0x0" /\ outs' = <<>>
Absorb == /\ Is("absorb") /\ Consume /\ Ev.hok /\ (dig # "none" => Ev.before = dig)
          /\ dig' = Ev.digest /\ ctr' = "0x0" /\ UNCHANGED outs
Squeeze == /\ Is("squeeze") /\ Consume /\ Ev.hok /\ Ev.digest = dig /\ Ev.counter = ctr
           /\ ctr' = BNAdd(ctr, "0x1") /\ outs' = Append(outs, Ev.out) /\ UNCHANGED dig
\* harness record: the interaction elements the layout returned, by field name
Elements == /\ Is("ie") /\ Consume
            /\ LET ord == Order(Ev.layout) IN
               /\ Len(outs) = Len(ord)
               /\ DOMAIN Ev.elements = {ord[i] : i \in 1..Len(ord)}
               /\ \A i \in 1..Len(ord) : Ev.elements[ord[i]] = outs[i]
            /\ UNCHANGED <<dig, ctr, outs>>
Next == Reset \/ Absorb \/ Squeeze \/ Elements
=============================================================================
