CONSTANT MaxSum = 192
INIT Init
NEXT Next
INVARIANT OrderOK
INVARIANT Sanity
CHECK_DEADLOCK FALSE
