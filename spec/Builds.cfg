INIT Init
NEXT Next
INVARIANT OwnBuildAccepts
INVARIANT AcceptImplies
INVARIANT Emit
CHECK_DEADLOCK FALSE
