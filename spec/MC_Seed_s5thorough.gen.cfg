CONSTANT Stone6 = FALSE
CONSTANT Emit = TRUE
CONSTANT Small = FALSE
INIT Init
NEXT Next
INVARIANT Binds
INVARIANT EmitReplay
CHECK_DEADLOCK FALSE
