------------------------------ MODULE Trace_Pow ------------------------------
(* Trace validation for C09.  Records (harness + hooks):                                   *)
(*   pow        : the hook inside verify_pow (digest, n_bits, nonce, both preimages, both    *)
(*                hashes; hok = both hashes recomputed by an independent primitive)          *)
(*   pow.result : what verify_pow returned to its caller                                      *)
(*   powcfg     : Config{n_bits}.validate() result                                           *)
(*   commit.*   : UnsentCommitment::commit on a real transcript: digest before, events, result *)
EXTENDS TraceLib, Pow, StarkField
VARIABLES pending,   \* expected verdict of the last pow event, or "none"
          cm         \* commit bookkeeping
vars == <<l, pending, cm>>
NoCm == [st |-> "none"]
Init == l = 1 /\ pending = "none" /\ cm = NoCm

Reset == Is("reset") /\ Consume /\ pending' = "none" /\ cm' = NoCm

PowEv ==
    /\ Is("pow") /\ Consume
    /\ Ev.hok
    /\ BHLen(Ev.digest) = 32
    /\ Ev.pre1 = InitPreimage(Ev.digest, Ev.n_bits)
    /\ BHLen(Ev.pre1) = 41
    /\ Ev.pre2 = FinalPreimage(Ev.h1, Ev.nonce)
    /\ BHLen(Ev.pre2) = 40
    /\ pending' = (IF Accept(Ev.h2, Ev.n_bits) THEN "accept" ELSE "reject")
    /\ (cm.st = "begun" => /\ BHToNat(Ev.digest) = cm.digest /\ Ev.n_bits = cm.n_bits /\ Ev.nonce = cm.nonce)
    /\ cm' = IF cm.st = "begun" THEN [cm EXCEPT !.st = "checked"] ELSE cm

PowResult ==
    /\ Is("pow.result") /\ Consume
    /\ pending # "none"
    /\ Ev.ok = (pending = "accept")
    /\ pending' = "none" /\ UNCHANGED cm

PowCfg ==
    /\ Is("powcfg") /\ Consume
    /\ Ev.ok = ConfigValid(Ev.n_bits)
    /\ UNCHANGED <<pending, cm>>

\* UnsentCommitment::commit: check on the current digest, then absorb the nonce
CommitBegin ==
    /\ Is("commit.begin") /\ Consume /\ cm.st = "none"
    /\ cm' = [st |-> "begun", digest |-> Ev.digest, n_bits |-> Ev.n_bits, nonce |-> Ev.nonce]
    /\ pending' = "none"
CommitAbsorb ==
    /\ Is("absorb") /\ Consume /\ cm.st = "checked" /\ pending = "accept"
    /\ Ev.hok
    /\ Ev.before = cm.digest /\ Ev.msg = <<cm.nonce>>
    /\ cm' = [cm EXCEPT !.st = "absorbed", !.digest = Ev.digest]
    /\ UNCHANGED pending
CommitEnd ==
    /\ Is("commit.end") /\ Consume
    /\ \/ /\ Ev.ok /\ cm.st = "absorbed" /\ Ev.digest = cm.digest /\ Ev.counter = "0x0"
       \/ /\ ~Ev.ok /\ cm.st = "checked" /\ pending = "reject" /\ Ev.digest = cm.digest
    /\ cm' = NoCm /\ pending' = "none"

Next == Reset \/ PowEv \/ PowResult \/ PowCfg \/ CommitBegin \/ CommitAbsorb \/ CommitEnd
=============================================================================
