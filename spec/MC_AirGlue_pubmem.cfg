CONSTANT P = 97
CONSTANT Gen = 5
CONSTANT MaxBits = 1
CONSTANT MaxSpacing = 2
INIT Init
NEXT Next
INVARIANT PubMemOK
CHECK_DEADLOCK FALSE
