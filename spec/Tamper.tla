-------------------------------- MODULE Tamper --------------------------------
(* C02: tamper evidence as a data-flow theorem about the protocol of Stark.tla.             *)
(* A proof is a family of position classes.  The verifier performs checks; each check reads  *)
(* a set of positions and a set of challenges; each challenge is a hash of the public-input   *)
(* digest and of every prover message sent before it.  A position is *bound* if some check's   *)
(* transitive support contains it: changing its value changes an input of that check, which    *)
(* then fails unless a hash collides / a random point hits a root (the luck events of          *)
(* Stark.tla).  The theorem: every position class is bound; deletions are additionally caught  *)
(* by the length guard of the vector they belong to.  TLC emits the catalogue with the binding *)
(* checks; the harness maps every concrete position of accepted proofs to a class and verifies  *)
(* that the real verifier rejects each mutant.                                                 *)
EXTENDS Naturals, FiniteSets, Sequences, TLC, Json
CONSTANT Stone6      \* the friendly-layer count is part of the seed under Stone 6

(* ---- positions ---- *)
CfgNumbers == {"cfg.traces.original.n_columns", "cfg.traces.original.height", "cfg.traces.original.nvf",
               "cfg.traces.interaction.n_columns", "cfg.traces.interaction.height", "cfg.traces.interaction.nvf",
               "cfg.composition.n_columns", "cfg.composition.height", "cfg.composition.nvf",
               "cfg.fri.log_input_size", "cfg.fri.n_layers", "cfg.fri.log_last", "cfg.fri.step", "cfg.fri.inner.n_columns",
               "cfg.fri.inner.height", "cfg.fri.inner.nvf", "cfg.pow_bits", "cfg.log_trace", "cfg.n_queries", "cfg.log_cosets", "cfg.nvf"}
PiFields == {"pi.log_n_steps", "pi.rc_min", "pi.rc_max", "pi.layout", "pi.dynamic_param", "pi.segment.begin", "pi.segment.stop",
             "pi.padding_addr", "pi.padding_value", "pi.main_page.address", "pi.main_page.value", "pi.page_header"}
Messages == <<"msg.c_orig", "msg.c_inter", "msg.c_comp", "msg.oods.mask", "msg.oods.comp", "msg.fri_commit", "msg.last_coef", "msg.nonce">>
MsgSet == {Messages[i] : i \in 1..Len(Messages)}
Witness == {"wit.orig.value", "wit.orig.auth", "wit.inter.value", "wit.inter.auth", "wit.comp.value", "wit.comp.auth",
            "wit.fri.leaf", "wit.fri.auth"}
Positions == CfgNumbers \cup PiFields \cup MsgSet \cup Witness
Vectors == {"cfg.fri.step", "cfg.fri.inner.n_columns", "pi.segment.begin", "pi.main_page.address", "msg.oods.mask", "msg.fri_commit",
            "msg.last_coef", "wit.orig.value", "wit.orig.auth", "wit.inter.value", "wit.inter.auth", "wit.comp.value", "wit.comp.auth",
            "wit.fri.leaf", "wit.fri.auth"}

(* ---- challenges: what each one hashes ---- *)
Seed == PiFields \cup (IF Stone6 THEN {"cfg.nvf"} ELSE {})
MsgIndex(m) == CHOOSE i \in 1..Len(Messages) : Messages[i] = m
Before(m) == {Messages[i] : i \in 1..(MsgIndex(m))}          \* messages up to and including m
Chal == [ ie     |-> Seed \cup Before("msg.c_orig"),
          alpha  |-> Seed \cup Before("msg.c_inter"),
          z      |-> Seed \cup Before("msg.c_comp"),
          alpha2 |-> Seed \cup Before("msg.oods.comp"),
          evalpt |-> Seed \cup Before("msg.fri_commit"),
          powdig |-> Seed \cup Before("msg.last_coef"),
          \* query indices: the samples hash everything incl. the nonce; how many are drawn and the domain are declared numbers
          queries |-> Seed \cup Before("msg.nonce") \cup {"cfg.n_queries", "cfg.log_trace", "cfg.log_cosets"} ]

(* ---- checks: direct support ---- *)
Checks ==
  [ config_validation |-> CfgNumbers,
    pi_validation     |-> {"pi.log_n_steps", "pi.layout", "pi.rc_min", "pi.rc_max", "pi.segment.begin", "pi.segment.stop", "cfg.log_trace"},
    oods_equation     |-> {"msg.oods.mask", "msg.oods.comp", "cfg.log_trace"} \cup PiFields \cup Chal.ie \cup Chal.alpha \cup Chal.z,
    pow               |-> {"msg.nonce", "cfg.pow_bits"} \cup Chal.powdig,
    decommit_orig     |-> {"msg.c_orig", "wit.orig.value", "wit.orig.auth", "cfg.traces.original.n_columns", "cfg.traces.original.height",
                           "cfg.traces.original.nvf"} \cup Chal.queries,
    decommit_inter    |-> {"msg.c_inter", "wit.inter.value", "wit.inter.auth", "cfg.traces.interaction.n_columns",
                           "cfg.traces.interaction.height", "cfg.traces.interaction.nvf"} \cup Chal.queries,
    decommit_comp     |-> {"msg.c_comp", "wit.comp.value", "wit.comp.auth", "cfg.composition.n_columns", "cfg.composition.height",
                           "cfg.composition.nvf"} \cup Chal.queries,
    \* FRI layer decommitments: the first layer's values are the DEEP values, a function of the opened rows, the OODS values and alpha', z
    fri_layers        |-> {"msg.fri_commit", "wit.fri.leaf", "wit.fri.auth", "cfg.fri.step", "cfg.fri.inner.n_columns", "cfg.fri.inner.height",
                           "cfg.fri.inner.nvf", "wit.orig.value", "wit.inter.value", "wit.comp.value", "msg.oods.mask", "msg.oods.comp",
                           "cfg.log_trace", "cfg.log_cosets"}
                          \cup Chal.alpha2 \cup Chal.z \cup Chal.evalpt \cup Chal.queries,
    last_layer        |-> {"msg.last_coef", "cfg.fri.log_last", "wit.fri.leaf"} \cup Chal.evalpt \cup Chal.queries,
    public_input_hash |-> {"pi.main_page.address", "pi.main_page.value", "pi.segment.begin", "pi.segment.stop"} ]
CheckNames == DOMAIN Checks
Binders(p) == {c \in CheckNames : p \in Checks[c]}
\* length guards: deleting an element of a vector is caught by the guard of that vector (or by the checks that bind its elements)
LengthGuard(v) == CASE v \in {"wit.orig.value", "wit.inter.value", "wit.comp.value"} -> "columns*queries"
                    [] v \in {"wit.orig.auth", "wit.inter.auth", "wit.comp.auth", "wit.fri.auth"} -> "missing sibling"
                    [] v = "msg.oods.mask" -> "mask+degree"
                    [] v = "msg.last_coef" -> "2^log_last"
                    [] v = "msg.fri_commit" -> "n_layers-1"
                    [] v \in {"cfg.fri.step", "cfg.fri.inner.n_columns"} -> "n_layers"
                    [] v = "wit.fri.leaf" -> "coset completion"
                    [] v = "pi.segment.begin" -> "segment count"
                    [] v = "pi.main_page.address" -> "page length in the seed"
                    [] OTHER -> "none"

VARIABLES pos, kind
Kinds == {"replace", "delete", "append"}
Init == pos \in Positions /\ kind \in Kinds /\ (kind \in {"delete", "append"} => pos \in Vectors)
Next == UNCHANGED <<pos, kind>>

Rejected == CASE kind = "replace" -> Binders(pos) # {}
              [] kind = "delete"  -> LengthGuard(pos) # "none" \/ Binders(pos) # {}
              [] kind = "append"  -> FALSE                     \* the one tolerated malleability: may stay accepted
TamperEvident == kind # "append" => Rejected
\* redundancy: every prover message and witness value is bound by at least two independent mechanisms or by a Merkle root
EveryVectorGuarded == pos \in Vectors => LengthGuard(pos) # "none"
Emit == PrintT(<<"REPLAY", ToJson([class |-> pos, mutation |-> kind, expect |-> IF Rejected THEN "reject" ELSE "any",
                                   binders |-> Binders(pos), guard |-> IF pos \in Vectors THEN LengthGuard(pos) ELSE "n/a"])>>)
=============================================================================
