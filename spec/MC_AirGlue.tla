------------------------------ MODULE MC_AirGlue ------------------------------
(* C15 over a small field, exhaustive: the closed forms equal the defining recurrence/product. *)
EXTENDS SmallField, TLC
AG == INSTANCE AirGlue WITH Add <- SAdd, Sub <- SSub, Mul <- SMul, Inv <- SInv, OfNat <- LAMBDA n : n % P, Zero <- 0, One <- 1
CONSTANTS MaxBits, MaxSpacing
VARIABLES nbits, spacing, z, alpha
vars == <<nbits, spacing, z, alpha>>
Init == nbits \in 1..MaxBits /\ spacing \in 1..MaxSpacing /\ z \in 0..(P - 1) /\ alpha \in 0..(P - 1)
Next == UNCHANGED vars
DilutedOK == AG!DilutedClosed(nbits, spacing, z, alpha) = AG!DilutedNaive(nbits, spacing, z, alpha)
\* public memory on a fixed family of small memories (cells, page products, padding) for every z, alpha; the product must be invertible
Cells(k) == [i \in 1..k |-> <<(3 * i + nbits) % P, (5 * i + spacing) % P>>]
PadCell == <<1, (7 + spacing) % P>>
NonZero(cells, pp, padCell) == /\ AG!CellProduct(cells, z, alpha) # 0 /\ AG!SeqProduct(pp) # 0
                               /\ SSub(z, SAdd(padCell[1], SMul(alpha, padCell[2]))) # 0
PubMemOK == \A k \in 0..3 : \A np \in 0..2 : \A pp \in {<<>>, <<5>>, <<5, 11>>} :
    NonZero(Cells(k), pp, PadCell) =>
        AG!PubMemClosed(Cells(k), pp, PadCell, np, z, alpha, k + np + 2 * Len(pp))
            = AG!PubMemNaive(Cells(k), pp, PadCell, np, z, alpha, k + np + 2 * Len(pp))
=============================================================================
