INIT TInit
NEXT TNext
POSTCONDITION Accepted
CHECK_DEADLOCK FALSE
