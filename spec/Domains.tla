------------------------------ MODULE Domains ------------------------------
(* Evaluation and trace domains of the STARK (crates/air/src/domains.rs).                 *)
(* For a trace-size exponent t and blow-up exponent c (t + c <= 192, the 2-adicity):       *)
(*   eval domain  = 3 * <w>,  w = EvalGen(t, c) of exact order 2^(t+c)                      *)
(*   trace domain = <g>,      g = TraceGen(t) of exact order 2^t, g = w^(2^c)               *)
EXTENDS StarkField

EvalGen(t, c) == RootOfUnity(t + c)
TraceGen(t)   == RootOfUnity(t)
EvalSize(t, c) == BNPow2(t + c)
TraceSize(t)   == BNPow2(t)

MinusOne == PMinus1

\* x has multiplicative order exactly 2^k
HasOrderPow2(x, k) ==
    /\ FPow(x, BNPow2(k)) = "0x1"
    /\ (k >= 1 => FPow(x, BNPow2(k - 1)) = MinusOne)
    /\ (k = 0 => x = "0x1")

\* The property (C12) for one pair, stated on arbitrary candidate values.
DomainsOK(t, c, evalGen, traceGen, evalSize, traceSize) ==
    /\ HasOrderPow2(evalGen, t + c)
    /\ HasOrderPow2(traceGen, t)
    /\ traceGen = FPow(evalGen, BNPow2(c))
    /\ evalSize = BNPow2(t + c)
    /\ traceSize = BNPow2(t)
=============================================================================
