--------------------------------- MODULE Fri ---------------------------------
(* The FRI low-degree test of crates/fri (fri.rs, layer.rs, first_layer.rs, last_layer.rs) *)
(* over a small prime field: an honest prover (definitions) and the verifier as a state     *)
(* machine with one action per loop body of the code.                                        *)
(*                                                                                           *)
(* Conventions (DESIGN.md Appendix A):                                                       *)
(*  - layer m has log-size lg(m); entry idx lives at the point w_m^bitrev(idx, lg(m));       *)
(*    the input layer is evaluated on 3 * <w_0> and FRI works on u = x / 3, x_inv = 3 / x.    *)
(*  - steps[1] = 0; inner layer i (0-based, i = 0..n_layers-2) is layer i, committed as a     *)
(*    table with 2^steps[i+2] columns (1-based sequence steps), folded with eval point i.     *)
(*  - folding by k with challenge b: a'_t = 2^k * sum_j b^j a_(j + 2^k t)                     *)
(*  - last layer: exactly 2^loglast coefficients; y = PolyEval(coefs, 1 / x_inv).             *)
(*  - witness leaves of a layer: for each touched coset in order, the elements not supplied   *)
(*    by a query, in position order.                                                          *)
EXTENDS SmallField, FiniteSets, TLC
G == INSTANCE FriFoldG WITH Add <- SAdd, Sub <- SSub, Mul <- SMul, Inv <- SInv, Zero <- 0, One <- 1,
                            RootOf <- SRoot, BitRevOp <- BitRev

RECURSIVE SumSeq(_)
SumSeq(s) == IF s = <<>> THEN 0 ELSE Head(s) + SumSeq(Tail(s))
NLayers(c) == Len(c.steps)
\* log size of layer m (0-based)
Lg(c, m) == c.logn - SumSeq(SubSeq(c.steps, 1, m + 1))
DegBound(c) == 2^(SumSeq(c.steps) + c.loglast)

(* ------------------------------ honest prover ------------------------------ *)
Coef(p, i) == IF i + 1 <= Len(p) THEN p[i + 1] ELSE 0          \* 0-based coefficient access
RECURSIVE FoldSum(_, _, _, _, _)
FoldSum(p, k, b, t, j) == IF j = 2^k THEN 0 ELSE SAdd(SMul(SPow(b, j), Coef(p, j + (2^k) * t)), FoldSum(p, k, b, t, j + 1))
FoldCoefs(p, k, b) ==
    LET n == (Len(p) + 2^k - 1) \div (2^k) IN
    [t \in 1..n |-> SMul((2^k) % P, FoldSum(p, k, b, t - 1, 0))]
RECURSIVE LayerPoly(_, _, _, _)
\* coefficients of layer m, folding with the given evaluation points
LayerPoly(c, poly, evalpts, m) ==
    IF m = 0 THEN poly ELSE FoldCoefs(LayerPoly(c, poly, evalpts, m - 1), c.steps[m + 1], evalpts[m])
LayerTable(c, poly, evalpts, m) ==
    LET lg == Lg(c, m)  w == SRoot(lg)  pm == LayerPoly(c, poly, evalpts, m) IN
    [idx \in 0..(2^lg - 1) |-> SPolyEval(pm, SPow(w, BitRev(idx, lg)))]
LastCoefs(c, poly, evalpts) ==
    LET pl == LayerPoly(c, poly, evalpts, NLayers(c) - 1) IN
    [i \in 1..(2^c.loglast) |-> Coef(pl, i - 1)]                 \* truncated / zero-padded to exactly 2^loglast

RECURSIVE SortSetF(_)
SortSetF(T) == IF T = {} THEN <<>> ELSE LET m == CHOOSE m \in T : \A y \in T : m <= y IN <<m>> \o SortSetF(T \ {m})
\* query index sets per layer: layer 0 = Q, layer m+1 = cosets touched in layer m
RECURSIVE LayerQueries(_, _, _)
LayerQueries(c, Q, m) == IF m = 0 THEN Q ELSE {q \div (2^c.steps[m + 1]) : q \in LayerQueries(c, Q, m - 1)}
\* honest witness leaves of inner layer m (its table folded by steps[m+2])
RECURSIVE LeavesOf(_, _, _, _, _)
LeavesOf(tab, qset, k, cosets, i) ==
    IF i > Len(cosets) THEN <<>>
    ELSE LET base == cosets[i] * (2^k)
             missing == SortSetF({base + j : j \in 0..(2^k - 1)} \ qset)
         IN [t \in 1..Len(missing) |-> tab[missing[t]]] \o LeavesOf(tab, qset, k, cosets, i + 1)
HonestLeaves(c, tables, Q, m) ==
    LET k == c.steps[m + 2]
        qset == LayerQueries(c, Q, m)
        cosets == SortSetF({q \div (2^k) : q \in qset})
    IN LeavesOf(tables[m + 1], qset, k, cosets, 1)

(* ------------------------------ verifier machine ------------------------------ *)
VARIABLES
    cfg,        \* [logn, steps, loglast, logcosets]
    tables,     \* committed inner-layer tables (what the Merkle roots bind), sequence over inner layers
    commitOK,   \* per inner layer: the commitment handed to the verifier is the root of tables[m] and the
                \* authentication nodes are the honest ones (FALSE models a changed root or node)
    evalpts,    \* evaluation points used by the verifier
    lastcoefs,  \* last-layer coefficients sent
    witness,    \* per inner layer: witness leaves sent
    input,      \* sequence of <<index, value, point x>> : the first-layer queries
    layer,      \* current inner layer (0-based); NLayers-1 = last layer
    qs,         \* pending queries of the current layer: sequence of <<index, y, x_inv>>
    nextqs,     \* queries produced for the next layer
    lpos,       \* next unused witness leaf of the current layer
    opened,     \* <<index, value>> pairs gathered for the decommitment of the current layer
    phase,      \* "first" | "fold" | "decommit" | "last" | "done"
    verdict     \* "running" | "accept" | reject reason
fvars == <<cfg, tables, commitOK, evalpts, lastcoefs, witness, input, layer, qs, nextqs, lpos, opened, phase, verdict>>
fconst == <<cfg, tables, commitOK, evalpts, lastcoefs, witness, input>>

GenInvSmall == SInv(Gen)
Group16 == G!GroupBR(4)

\* gather_first_layer_queries: x_inv = 1 / (x * Gen^-1)
GatherFirst ==
    /\ phase = "first" /\ verdict = "running"
    /\ qs' = [t \in 1..Len(input) |-> <<input[t][1], input[t][2], SInv(SMul(input[t][3], GenInvSmall))>>]
    /\ phase' = IF NLayers(cfg) = 1 THEN "last" ELSE "fold"
    /\ UNCHANGED <<layer, nextqs, lpos, opened, verdict>> /\ UNCHANGED fconst

\* one iteration of the while loop of compute_next_layer: gather one coset, fold it
K == cfg.steps[layer + 2]
RECURSIVE Gather(_, _, _, _, _, _)
\* returns <<elements, x_inv of the coset start (0 if no query consumed), remaining queries, next leaf position, ok>>
Gather(q, lp, base, j, acc, xinv) ==
    IF j = 2^K THEN <<acc, xinv, q, lp, TRUE>>
    ELSE IF q # <<>> /\ Head(q)[1] = base + j
         THEN Gather(Tail(q), lp, base, j + 1, Append(acc, Head(q)[2]), SMul(Head(q)[3], Group16[j + 1]))
         ELSE IF lp > Len(witness[layer + 1]) THEN <<acc, xinv, q, lp, FALSE>>       \* drain on an empty witness
         ELSE Gather(q, lp + 1, base, j + 1, Append(acc, witness[layer + 1][lp]), xinv)
FoldCoset ==
    /\ phase = "fold" /\ verdict = "running" /\ qs # <<>>
    /\ LET ci == Head(qs)[1] \div (2^K)
           g == Gather(qs, lpos, ci * (2^K), 0, <<>>, 0)
       IN IF ~g[5]
          THEN /\ verdict' = "reject-missing-leaf" /\ phase' = "done"
               /\ UNCHANGED <<qs, nextqs, lpos, opened, layer>>
          ELSE /\ qs' = g[3] /\ lpos' = g[4]
               /\ opened' = opened \o [j \in 1..(2^K) |-> <<ci * (2^K) + j - 1, g[1][j]>>]
               /\ nextqs' = Append(nextqs, <<ci, G!FoldButterfly(g[1], 0, K, evalpts[layer + 1], g[2]), SPow(g[2], 2^K)>>)
               /\ UNCHANGED <<verdict, phase, layer>>
    /\ UNCHANGED fconst
EndOfLayerQueries ==
    /\ phase = "fold" /\ verdict = "running" /\ qs = <<>>
    /\ phase' = "decommit"
    /\ UNCHANGED <<qs, nextqs, lpos, opened, layer, verdict>> /\ UNCHANGED fconst

\* table_decommit of the layer: by C04/C05 it succeeds iff the commitment and authentication nodes are the
\* honest ones and every opened cell is the committed one.  (The pinned code computed and DROPPED this result.)
DecommitLayer ==
    /\ phase = "decommit" /\ verdict = "running"
    /\ LET ok == /\ commitOK[layer + 1]
                 /\ \A t \in 1..Len(opened) : tables[layer + 1][opened[t][1]] = opened[t][2]
       IN IF ok
          THEN /\ qs' = nextqs /\ nextqs' = <<>> /\ opened' = <<>> /\ lpos' = 1 /\ layer' = layer + 1
               /\ phase' = IF layer + 1 = NLayers(cfg) - 1 THEN "last" ELSE "fold"
               /\ UNCHANGED verdict
          ELSE /\ verdict' = "reject-decommit" /\ phase' = "done"
               /\ UNCHANGED <<qs, nextqs, opened, lpos, layer>>
    /\ UNCHANGED fconst

LastLayer ==
    /\ phase = "last" /\ verdict = "running"
    /\ verdict' = IF Len(lastcoefs) # 2^cfg.loglast THEN "reject-last-length"
                  ELSE IF \A t \in 1..Len(qs) : SPolyEval(lastcoefs, SInv(qs[t][3])) = qs[t][2] THEN "accept"
                  ELSE "reject-last-layer"
    /\ phase' = "done"
    /\ UNCHANGED <<qs, nextqs, lpos, opened, layer>> /\ UNCHANGED fconst

FriNext == GatherFirst \/ FoldCoset \/ EndOfLayerQueries \/ DecommitLayer \/ LastLayer
FriDone == phase = "done"
=============================================================================
