------------------------------ MODULE MC_Queries ------------------------------
(* Small-alphabet exhaustive check of the query rule: counts 0..MaxN (above the domain     *)
(* size), domain sizes 2..16, raw values from an alphabet that collides modulo the size.    *)
EXTENDS Queries, TLC
CONSTANTS MaxN
VARIABLES raw, size
vars == <<raw, size>>
Alphabet == {0, 1, 2, 3, 5, 8, 13, 16, 17, 31}
RECURSIVE Seqs(_)
Seqs(n) == IF n = 0 THEN {<<>>} ELSE {Append(s, x) : s \in Seqs(n - 1), x \in Alphabet}
Init == /\ size \in {2, 4, 8, 16}
        /\ \E n \in 0..MaxN : raw \in Seqs(n)
Next == UNCHANGED vars
LowMod == 16
Out == QueriesOf(raw, size, LowMod)
Holds == QueriesOK(Out, Len(raw), size)
\* every sample appears, and nothing else
SameSet == {Out[i] : i \in 1..Len(Out)} = {(raw[i] % LowMod) % size : i \in 1..Len(raw)}
\* duplicates do occur in the explored space (non-vacuity is checked by the runner through coverage of Init)
=============================================================================
