----------------------------- MODULE MC_ProofFile -----------------------------
(* Generates annotation streams (a fixed commit-phase prefix followed by every ordering of a  *)
(* set of decommitment lines, including authentication nodes of both kinds interleaved, plus   *)
(* streams with one line removed or duplicated) with the fields Parse extracts, for replay on  *)
(* the real parser.                                                                            *)
EXTENDS ProofFile, Json
CONSTANTS Emit, PoolSize, NInner      \* NInner = number of FRI layers with a commitment in the generated files
Prefix == << <<<<"ie", 0>>, "Field Element", <<101>>>>, <<<<"c_orig", 0>>, "Hash", <<11>>>>, <<<<"ie", 0>>, "Field Element", <<102>>>>, <<<<"ie", 0>>, "Field Element", <<103>>>>,
             <<<<"c_inter", 0>>, "Hash", <<12>>>>, <<<<"c_comp", 0>>, "Hash", <<13>>>>,
             <<<<"oods", 0>>, "Field Elements", <<21, 22>>>>, <<<<"oods", 0>>, "Field Elements", <<23>>>>,
             <<<<"fri_commit", 0>>, "Hash", <<31>>>>, <<<<"last", 0>>, "Field Elements", <<41, 42>>>>, <<<<"pow", 0>>, "Data", <<51>>>> >>
FullPool == { <<<<"t0", 0>>, "Field Element", <<61>>>>, <<<<"t0", 0>>, "Hash", <<62>>>>, <<<<"t0", 0>>, "Data", <<63>>>>, <<<<"t0", 0>>, "Hash", <<64>>>>,
          <<<<"t1", 0>>, "Field Element", <<71>>>>, <<<<"t2", 0>>, "Hash", <<81>>>>,
          <<<<"fri", 1>>, "Field Element", <<91>>>>, <<<<"fri", 1>>, "Hash", <<92>>>> }
\* many FRI layers: lines of layers 1, 2, 10 and 11 interleaved ("Layer 1" is a prefix of "Layer 10" and "Layer 11" in the file's paths)
LayerPool == { <<<<"t0", 0>>, "Field Element", <<61>>>>,
               <<<<"fri", 1>>, "Field Element", <<91>>>>, <<<<"fri", 1>>, "Hash", <<92>>>>, <<<<"fri", 10>>, "Field Element", <<93>>>>,
               <<<<"fri", 11>>, "Hash", <<94>>>>, <<<<"fri", 2>>, "Field Element", <<95>>>>, <<<<"fri", 11>>, "Field Element", <<96>>>> }
Pool == IF NInner > 1 THEN LayerPool ELSE {t \in FullPool : Vals(t)[1] \in (IF PoolSize >= 8 THEN {61, 62, 63, 64, 71, 81, 91, 92} ELSE {61, 62, 63, 64, 71, 91, 92})}
ASSUME NInner = 1 \/ NInner >= 11
VARIABLES tail, left, edit
vars == <<tail, left, edit>>
\* "powlast": the nonce line is written after the decommitment lines; "leafearly": the first decommitment line is written before
\* the nonce line - the file records the same values, each class in the same relative order, so Parse returns the same proof
Init == tail = <<>> /\ left = Pool /\ edit \in {<<"none", 0>>, <<"powlast", 0>>, <<"leafearly", 0>>, <<"lastlate", 0>>} \cup {<<"drop", i>> : i \in 1..Len(Prefix)} \cup {<<"dup", i>> : i \in 1..Len(Prefix)}
\* every ordering for the unedited prefix; one fixed ordering (ascending values) for the edited prefixes
Next == \E t \in left :
          /\ (edit[1] # "none" => \A u \in left : Vals(t)[1] <= Vals(u)[1])
          /\ tail' = Append(tail, t) /\ left' = left \ {t} /\ UNCHANGED edit
Spec == Init /\ [][Next]_vars
EditedPrefix == CASE edit[1] = "drop" -> SubSeq(Prefix, 1, edit[2] - 1) \o SubSeq(Prefix, edit[2] + 1, Len(Prefix))
                  [] edit[1] = "dup" -> SubSeq(Prefix, 1, edit[2]) \o <<Prefix[edit[2]]>> \o SubSeq(Prefix, edit[2] + 1, Len(Prefix))
                  [] OTHER -> Prefix
PowIdx == CHOOSE i \in 1..Len(Prefix) : Prefix[i][1][1] = "pow"
LastIdx == CHOOSE i \in 1..Len(Prefix) : Prefix[i][1][1] = "last"
Without(s, i) == SubSeq(s, 1, i - 1) \o SubSeq(s, i + 1, Len(s))
Stream == CASE edit[1] = "powlast" -> Without(Prefix, PowIdx) \o tail \o <<Prefix[PowIdx]>>
            [] edit[1] = "leafearly" /\ tail # <<>> -> SubSeq(Prefix, 1, PowIdx - 1) \o <<tail[1]>> \o SubSeq(Prefix, PowIdx, Len(Prefix)) \o Tail(tail)
            [] edit[1] = "lastlate" -> Without(Prefix, LastIdx) \o tail \o <<Prefix[LastIdx]>>
            [] OTHER -> EditedPrefix \o tail
P1 == Parse(Stream, NInner)
\* every value of a decommitment line lands in exactly one field, in stream order (checked through the definition's own structure)
Faithful == (left = {} /\ NInner = 1) =>
    /\ Len(P1.t0_leaves) + Len(P1.t0_auth) = 4 /\ Len(P1.t1_leaves) = 1 /\ Len(P1.t2_auth) = (IF PoolSize >= 8 THEN 1 ELSE 0)
    /\ Len(P1.fri_leaves[1]) = 1 /\ Len(P1.fri_auth[1]) = 1
LayersFaithful == (left = {} /\ NInner > 1) =>
    /\ P1.fri_leaves[1] = <<91>> /\ P1.fri_auth[1] = <<92>> /\ P1.fri_leaves[2] = <<95>> /\ P1.fri_leaves[10] = <<93>>
    /\ P1.fri_leaves[11] = <<96>> /\ P1.fri_auth[11] = <<94>> /\ \A k \in 3..9 : P1.fri_leaves[k] = <<>> /\ P1.fri_auth[k] = <<>>
\* only complete orderings with the identity prefix, or the edited prefixes with one fixed ordering, are emitted
EmitReplay == (Emit /\ left = {}) =>
    PrintT(<<"REPLAY", ToJson([stream |-> Stream, edit |-> edit, wellformed |-> WellFormed(P1), ninner |-> NInner, expect |-> P1])>>)
=============================================================================
