INIT Init
NEXT Next
INVARIANT BaseValid
INVARIANT Emit
CHECK_DEADLOCK FALSE
