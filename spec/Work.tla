--------------------------------- MODULE Work ---------------------------------
(* C17: the verifier's work is bounded by the size of the proof.  Every loop of the verifier *)
(* is listed with the quantity that bounds its iteration count: data actually supplied in    *)
(* the proof, a constant of the layout, or a *declared number*.  A loop bounded by a declared *)
(* number is only acceptable if a guard has bounded that number by a constant before the loop *)
(* is reached.  Magnitudes of declared numbers are explored symbolically:                     *)
(*   "ok" (honest), "zero", "small", "big" (2^16..2^64), "huge" (2^128, p-1).                 *)
EXTENDS Naturals, Sequences, TLC
CONSTANTS G_Ranges,       \* n_queries in 1..48, log_n_cosets in 1..16
          G_FriRanges     \* n_layers in 2..15, steps in 1..4, log_last <= 15
Mags == {"ok", "zero", "small", "big", "huge"}
Unbounded(m) == m \in {"big", "huge"}

VARIABLES decl, pc, work, verdict
vars == <<decl, pc, work, verdict>>
Init == /\ decl \in [nQueries : Mags, nLayers : Mags, step : Mags, logLast : Mags, logCosets : Mags, height : Mags, nColumns : Mags]
        /\ pc = 1 /\ work = <<"bounded", "">> /\ verdict = "running"

\* <<kind, name, condition>>: guard passes iff condition; loop is bounded iff condition
d == decl
InRange(m) == m \in {"ok", "small"}
Prog == <<
  <<"guard", "pow bits 20..50 (u8)", TRUE>>,
  <<"guard", "G_Ranges", G_Ranges => (InRange(d.nQueries) /\ InRange(d.logCosets))>>,
  <<"guard", "column counts = layout's", d.nColumns = "ok">>,
  <<"guard", "heights = log_trace + log_cosets", d.height = "ok" \/ d.logCosets # "ok">>,
  <<"guard", "G_FriRanges", G_FriRanges => (InRange(d.nLayers) /\ InRange(d.step) /\ d.logLast \in {"ok", "small", "zero"})>>,
  <<"loop",  "fri config loop over n_layers", ~Unbounded(d.nLayers)>>,
  <<"loop",  "interaction elements / constraint coefficients (layout constants)", TRUE>>,
  <<"loop",  "fri_commit rounds over n_layers - 1 (one supplied commitment each)", ~Unbounded(d.nLayers)>>,
  <<"loop",  "generate_queries: n_queries squeezes", ~Unbounded(d.nQueries)>>,
  <<"loop",  "table decommitments: one row per query, Merkle path <= 252 levels, one supplied node each", TRUE>>,
  <<"loop",  "FRI cosets: 2^step elements per query", ~Unbounded(d.step)>>,
  <<"loop",  "last layer: Horner over the supplied coefficients per query", TRUE>> >>
Step ==
  /\ verdict = "running" /\ pc <= Len(Prog)
  /\ LET st == Prog[pc] IN
     IF st[1] = "guard"
     THEN IF st[3] THEN pc' = pc + 1 /\ UNCHANGED <<verdict, work>> ELSE verdict' = "reject" /\ UNCHANGED <<pc, work>>
     ELSE /\ pc' = pc + 1 /\ UNCHANGED verdict
          /\ work' = IF st[3] THEN work ELSE <<"proportional to a declared number", st[2]>>
  /\ UNCHANGED decl
Finish == verdict = "running" /\ pc > Len(Prog) /\ verdict' = "done" /\ UNCHANGED <<decl, pc, work>>
Next == Step \/ Finish
Spec == Init /\ [][Next]_vars
WorkBounded == work[1] = "bounded"
=============================================================================
