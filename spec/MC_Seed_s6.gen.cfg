CONSTANT Stone6 = TRUE
CONSTANT Emit = TRUE
INIT Init
NEXT Next
INVARIANT Binds
INVARIANT EmitReplay
CHECK_DEADLOCK FALSE
