----------------------------- MODULE PublicInput -----------------------------
(* The public input (crates/air/src/public_memory.rs, layout/*/mod.rs):                     *)
(*  SeedTerm   - the transcript seed as a term over the fields (C13)                          *)
(*  ValidPI    - the validity predicate of validate_public_input, integers (C14)              *)
(*  ProgramOutput - which main pages yield (program hash, output hash), and which are rejected *)
EXTENDS Terms, FiniteSets

(* ---------------------------------- C13 ---------------------------------- *)
RECURSIVE PedersenChain(_, _)
\* fold from the left: h := pedersen(h, x) over the sequence s, starting from acc
PedersenChain(acc, s) == IF s = <<>> THEN acc ELSE PedersenChain(Pedersen(acc, Head(s)), Tail(s))
RECURSIVE FlatPairs(_)
FlatPairs(s) == IF s = <<>> THEN <<>> ELSE <<Head(s)[1], Head(s)[2]>> \o FlatPairs(Tail(s))
RECURSIVE FlatTriples(_)
FlatTriples(s) == IF s = <<>> THEN <<>> ELSE <<Head(s)[1], Head(s)[2], Head(s)[3]>> \o FlatTriples(Tail(s))
MainPageHash(page) == Pedersen(PedersenChain(NatT(0), FlatPairs(page)), NatT(2 * Len(page)))
\* pi: [logSteps, rcMin, rcMax, layout, dyn (seq), segs (seq of pairs), padAddr, padVal, page (seq of pairs), headers (seq of triples)]
SeedTerm(pi, stone6, nvf) ==
    PoseidonMany( (IF stone6 THEN <<nvf>> ELSE <<>>)
                  \o <<pi.logSteps, pi.rcMin, pi.rcMax, pi.layout>> \o pi.dyn \o FlatPairs(pi.segs)
                  \o <<pi.padAddr, pi.padVal, NatT(Len(pi.headers) + 1), NatT(Len(pi.page)), MainPageHash(pi.page)>>
                  \o FlatTriples(pi.headers) )

(* ---------------------------------- C14 ---------------------------------- *)
\* layout row: [cpuRows (trace rows per step), nSegments, maxLogSteps, maxRC, builtins: seq of [seg, cells, rowRatio]]
\* pi numbers are integers here (a negative usage models stop_ptr < begin_addr)
ValidPI(n, L) ==
    /\ n.logSteps >= 0 /\ n.logSteps < L.maxLogSteps
    /\ (2^n.logSteps) * L.cpuRows = 2^n.logTrace
    /\ n.nSegments = L.nSegments
    /\ n.layoutOK
    /\ 0 <= n.rcMin /\ n.rcMin < n.rcMax /\ n.rcMax <= L.maxRC
    /\ \A i \in 1..Len(L.builtins) :
         LET b == L.builtins[i]  used == n.usage[i]
             \* a builtin the layout instance does not use (dynamic layout: uses_x = 0) holds no instance, whatever its row ratio says
             copies == IF "enabled" \in DOMAIN b /\ ~b.enabled THEN 0 ELSE (2^n.logTrace) \div b.rowRatio IN
         /\ used >= 0 /\ used % b.cells = 0
         /\ used \div b.cells <= copies

\* main page: sequence of <<address, value>>; program = cells at initial_pc .. initial_pc + programLen - 1 at the head of
\* the page, output = cells at outputStart .. outputStart + outputLen - 1 at the tail.
ProgramOutputOK(page, initialPc, programLen, outputStart, outputLen) ==
    /\ programLen >= 0 /\ outputLen >= 0
    /\ programLen <= Len(page) /\ outputLen <= Len(page)
    /\ \A i \in 1..programLen : page[i][1] = initialPc + i - 1
    /\ \A i \in 1..outputLen : page[Len(page) - outputLen + i][1] = outputStart + i - 1

\* verify_public_input (the same in all seven layouts): the program is loaded at address 1 and its segment is the 4-cell
\* bootstrap range [1, 5); the stack starts two cells after the program (program_end_pc = initial_fp - 2); no continuous
\* pages; both ends of the execution segment below the address bound.  segs = [prog, exec, out : <<begin, stop>>]
VerifyPIOK(page, segs, nHeaders, maxAddr) ==
    /\ segs.exec[1] < maxAddr /\ segs.exec[2] < maxAddr
    /\ nHeaders = 0
    /\ segs.prog[1] = 1 /\ segs.prog[2] = 5
    /\ ProgramOutputOK(page, segs.prog[1], segs.exec[1] - 2 - segs.prog[1], segs.out[1], segs.out[2] - segs.out[1])
=============================================================================
