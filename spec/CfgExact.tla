---------------------------- MODULE CfgExact ----------------------------
EXTENDS Integers
P == 3618502788666131213697322783095070105623107215331596699973092056135872020481

VARIABLES
  \* @type: Int;
  pow,
  \* @type: Int;
  nq,
  \* @type: Int;
  lc,
  \* @type: Int;
  lt,
  \* @type: Int;
  hT,
  \* @type: Int;
  fIn,
  \* @type: Int;
  s2,
  \* @type: Int;
  s3,
  \* @type: Int;
  last,
  \* @type: Int;
  ih1,
  \* @type: Int;
  ih2,
  \* @type: Int;
  c1,
  \* @type: Int;
  c2,
  \* @type: Int;
  sec

InField(x) == x >= 0 /\ x < P
FAdd(a,b) == (a+b) % P
FSub(a,b) == (a + P - b) % P
FMul(a,b) == (a*b) % P
Pow2s(s) == IF s = 1 THEN 2 ELSE IF s = 2 THEN 4 ELSE IF s = 3 THEN 8 ELSE 16

Init == /\ pow \in 0..255
        /\ nq \in Nat
        /\ lc \in Nat
        /\ lt \in Nat
        /\ hT \in Nat
        /\ fIn \in Nat
        /\ s2 \in Nat
        /\ s3 \in Nat
        /\ last \in Nat
        /\ ih1 \in Nat
        /\ ih2 \in Nat
        /\ c1 \in Nat
        /\ c2 \in Nat
        /\ sec \in Nat
        /\ nq < P
        /\ lc < P
        /\ lt < P
        /\ hT < P
        /\ fIn < P
        /\ s2 < P
        /\ s3 < P
        /\ last < P
        /\ ih1 < P
        /\ ih2 < P
        /\ c1 < P
        /\ c2 < P
        /\ sec < P
Next == /\ pow' = pow
        /\ nq' = nq
        /\ lc' = lc
        /\ lt' = lt
        /\ hT' = hT
        /\ fIn' = fIn
        /\ s2' = s2
        /\ s3' = s3
        /\ last' = last
        /\ ih1' = ih1
        /\ ih2' = ih2
        /\ c1' = c1
        /\ c2' = c2
        /\ sec' = sec

\* code-shaped validation (3 FRI layers, first step 0), with the two Cairo guards
Validate ==
  /\ pow >= 20 /\ pow <= 50
  /\ lc >= 1 /\ lc <= 16 /\ nq >= 1 /\ nq <= 48
  /\ sec <= FAdd(FMul(nq, lc), pow)
  /\ hT = FAdd(lt, lc)
  /\ last <= 15
  /\ s2 >= 1 /\ s2 <= 4 /\ s3 >= 1 /\ s3 <= 4
  /\ c1 = Pow2s(s2) /\ c2 = Pow2s(s3)
  /\ ih1 = FSub(fIn, s2) /\ ih2 = FSub(FSub(fIn, s2), s3)
  /\ FAdd(FAdd(FAdd(s2, s3), last), lc) = fIn
  /\ FAdd(FAdd(s2, s3), last) = lt

\* property predicate, plain integers
ConfigOK ==
  /\ pow \in 20..50 /\ lc \in 1..16 /\ nq \in 1..48
  /\ nq * lc + pow >= sec
  /\ hT = lt + lc
  /\ s2 \in 1..4 /\ s3 \in 1..4 /\ last <= 15
  /\ c1 = Pow2s(s2) /\ c2 = Pow2s(s3)
  /\ ih1 = fIn - s2 /\ ih2 = fIn - s2 - s3
  /\ fIn = s2 + s3 + last + lc
  /\ fIn = lt + lc

Exact == Validate <=> ConfigOK
=============================================================================
