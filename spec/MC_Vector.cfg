CONSTANT MaxHeight = 3
CONSTANT MaxQ = 8
CONSTANT Emit = TRUE
SPECIFICATION Spec
INVARIANT Complete
INVARIANT Binding
INVARIANT ExactWitness
INVARIANT FunctionalAgrees
INVARIANT EmitReplay
CHECK_DEADLOCK FALSE
