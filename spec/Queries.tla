------------------------------- MODULE Queries -------------------------------
(* Query generation (crates/stark/src/queries.rs), abstract in the number type.            *)
(*   sample_i = (squeeze_i mod 2^128) mod domain_size;  queries = sorted, de-duplicated     *)
(*   point(q) = 3 * w^bitreverse(q, log size),  w the evaluation-domain generator           *)
EXTENDS Naturals, Sequences, FiniteSets

RECURSIVE SortSetQ(_)
SortSetQ(T) == IF T = {} THEN <<>> ELSE LET m == CHOOSE m \in T : \A y \in T : m <= y IN <<m>> \o SortSetQ(T \ {m})

\* raw: sequence of squeezed values (naturals); lowmod = 2^128 in the code (a smaller power of two in
\* the small-number model, where TLC integers are 32-bit); returns the query sequence
QueriesOf(raw, size, lowmod) == SortSetQ({ (raw[i] % lowmod) % size : i \in 1..Len(raw) })

\* the property (C10) for an output sequence
QueriesOK(out, n, size) ==
    /\ \A i \in 1..Len(out) : out[i] >= 0 /\ out[i] < size
    /\ \A i \in 1..(Len(out) - 1) : out[i] < out[i + 1]
    /\ Len(out) <= n
=============================================================================
