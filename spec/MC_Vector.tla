------------------------------ MODULE MC_Vector ------------------------------
(* C04 on the model: for every height <= MaxHeight, every friendly-layer count, every       *)
(* non-empty set of distinct leaf positions and every single-position corruption, the queue *)
(* machine accepts exactly the honest openings.  Each finished instance is emitted as a     *)
(* REPLAY line (instance as terms + expected verdict) for the real vector_commitment_decommit. *)
EXTENDS VectorCommitment, Json
CONSTANTS MaxHeight, MaxQ, Emit
VARIABLE corrupt
vars == <<height, nvf, qidx, qval, auth, root, queue, start, apos, result, corrupt>>

LeafAtom(j) == Atom(<<"leaf", j>>)
Bad(k) == Atom(<<"bad", k>>)
Leaves(h) == [j \in 0..(2^h - 1) |-> LeafAtom(j)]

Init ==
  \E h \in 0..MaxHeight, n \in 0..(MaxHeight + 2) :
  \E Q \in {S \in (SUBSET (0..(2^h - 1))) : S # {} /\ Cardinality(S) <= MaxQ} :
    LET qs == SortSet(Q)
        a == HonestAuth(Leaves(h), qs, h, n)
        free == (0..(2^h - 1)) \ Q
    IN
    \E c \in {<<"none", 0, 0>>, <<"root", 0, 0>>, <<"extra", 0, 0>>, <<"roothi", 0, 160>>, <<"roothi", 0, 248>>}   \* roothi: the root changed only above the digest width
             \cup {<<"qval", i, 0>> : i \in 1..Len(qs)}
             \cup {<<"qidx", i, j>> : i \in 1..Len(qs), j \in free}        \* index replaced by another in-range index
             \cup {<<"qalias", i, k>> : i \in 1..Len(qs), k \in {1, 2, 5}}  \* index replaced by an out-of-range alias idx + k * 2^height
             \cup {<<"auth", i, 0>> : i \in 1..Len(a)}
             \cup {<<"authhi", i, k>> : i \in 1..Len(a), k \in {160, 248}}  \* a needed sibling changed only above the digest width
             \cup {<<"qvalhi", i, k>> : i \in 1..Len(qs), k \in {160, 248}}
             \cup {<<"dropauth", i, 0>> : i \in 1..Len(a)}                  \* a needed sibling is missing
             \cup {<<"swapauth", i, 0>> : i \in 1..(Len(a) - 1)}            \* two needed siblings exchanged
             \cup {<<"nvf", m, 0>> : m \in (0..(MaxHeight + 2)) \ {n}} :    \* opened under another friendly boundary
      /\ height = h
      /\ nvf = IF c[1] = "nvf" THEN c[2] ELSE n
      /\ corrupt = c
      /\ qidx = [i \in 1..Len(qs) |-> IF c[1] = "qidx" /\ c[2] = i THEN c[3]
                                       ELSE IF c[1] = "qalias" /\ c[2] = i THEN qs[i] + c[3] * 2^h ELSE qs[i]]
      /\ qval = [i \in 1..Len(qs) |-> IF c = <<"qval", i, 0>> THEN Bad(i)
                                       ELSE IF c[1] = "qvalhi" /\ c[2] = i THEN HiBits(LeafAtom(qs[i]), c[3]) ELSE LeafAtom(qs[i])]
      /\ auth = CASE c[1] = "auth" -> [a EXCEPT ![c[2]] = Bad(100 + c[2])]
                  [] c[1] = "authhi" -> [a EXCEPT ![c[2]] = HiBits(@, c[3])]
                  [] c[1] = "dropauth" -> SubSeq(a, 1, c[2] - 1) \o SubSeq(a, c[2] + 1, Len(a))
                  [] c[1] = "swapauth" -> [a EXCEPT ![c[2]] = a[c[2] + 1], ![c[2] + 1] = a[c[2]]]
                  [] c[1] = "extra" -> Append(a, Bad(999))
                  [] OTHER -> a
      /\ root = IF c[1] = "root" THEN Bad(1000) ELSE IF c[1] = "roothi" THEN HiBits(RootOf(Leaves(h), h, n), c[3]) ELSE RootOf(Leaves(h), h, n)
      /\ MachineInit

Next == MachineNext /\ UNCHANGED corrupt
Spec == Init /\ [][Next]_vars

\* an "nvf" corruption only matters if some hashed level changes its hash function
NvfMatters == corrupt[1] = "nvf" =>
    LET n0 == CHOOSE n \in 0..(MaxHeight + 2) : root = RootOf(Leaves(height), height, n) IN
    \E d \in 1..height : (n0 >= d) # (nvf >= d)
Honest == corrupt[1] \in {"none", "extra"} \/ (corrupt[1] = "nvf" /\ ~NvfMatters)
\* exchanging two equal siblings cannot happen: all leaves are distinct atoms

Complete == (Done /\ Honest) => result = "ok"
Binding  == (Done /\ ~Honest) => result # "ok"
ExactWitness == (Done /\ corrupt[1] = "none") => apos = Len(auth) + 1
FunctionalAgrees == Done => result = Decommit(qidx, qval, auth, root, height, nvf)
Terminates == <>Done

EmitReplay == (Emit /\ Done) =>
    PrintT(<<"REPLAY", ToJson([height |-> height, nvf |-> nvf, idx |-> qidx, val |-> qval, auth |-> auth,
                               root |-> root, corrupt |-> corrupt, expect |-> result])>>)
=============================================================================
