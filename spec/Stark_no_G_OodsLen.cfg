CONSTANT Mask = 4
CONSTANT CDeg = 2
CONSTANT G_OodsLen = FALSE
CONSTANT G_FriTie = TRUE
CONSTANT G_Ranges = TRUE
CONSTANT G_LayerDecommit = TRUE
CONSTANT Emit = FALSE
SPECIFICATION Spec
INVARIANT Sound
INVARIANT Hypotheses
INVARIANT HonestAccepted
INVARIANT EmitReplay
CHECK_DEADLOCK FALSE
