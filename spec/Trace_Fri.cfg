INIT FInit
NEXT FNext
POSTCONDITION Accepted
CHECK_DEADLOCK FALSE
