-------------------------- MODULE MC_BigFieldCheck --------------------------
(* Cross-validation of the Java override BigField.class:                                  *)
(*  (1) against native TLC integer arithmetic modulo a small prime, exhaustively;          *)
(*  (2) against algebraic laws at the real 252-bit prime on a grid of structured values;    *)
(*  (3) byte-string helpers against hand-computed cases.                                    *)
EXTENDS Naturals, Sequences, TLC, StarkField
SmallP == 97
VARIABLES a, b
Init == a \in 0..(SmallP - 1) /\ b \in 0..(SmallP - 1)
Next == UNCHANGED <<a, b>>
RECURSIVE IPow(_, _, _)
IPow(x, e, p) == IF e = 0 THEN 1 % p ELSE (x * IPow(x, e - 1, p)) % p
S(n) == BNOf(n)
SmallOK ==
    /\ BMAdd(S(a), S(b), S(SmallP)) = S((a + b) % SmallP)
    /\ BMSub(S(a), S(b), S(SmallP)) = S((a + SmallP - b) % SmallP)
    /\ BMMul(S(a), S(b), S(SmallP)) = S((a * b) % SmallP)
    /\ (b <= 12 => BMPow(S(a), S(b), S(SmallP)) = S(IPow(a, b, SmallP)))
    /\ (a # 0 => BMMul(S(a), BMInv(S(a), S(SmallP)), S(SmallP)) = "0x1")
    /\ BNAdd(S(a), S(b)) = S(a + b)
    /\ BNMul(S(a), S(b)) = S(a * b)
    /\ (b # 0 => BNDiv(S(a), S(b)) = S(a \div b) /\ BNMod(S(a), S(b)) = S(a % b))
    /\ BNLeq(S(a), S(b)) = (a <= b)
    /\ BNLt(S(a), S(b)) = (a < b)
    /\ BNToInt(S(a)) = a
    /\ BNSub(S(a), S(b)) = S(IF a >= b THEN a - b ELSE 0)
\* structured 252-bit values: p - k, 2^k, 3^k combinations
Big(n) == FAdd(FPow("0x3", BNOf(n * 1000003 + 17)), FSub(BNPow2(n + 100), BNOf(n)))
BigOK == LET x == Big(a)  y == Big(b)  z == Big(a + b + 1) IN
    /\ IsFelt(x) /\ IsFelt(y)
    /\ FAdd(x, y) = FAdd(y, x)
    /\ FMul(x, y) = FMul(y, x)
    /\ FMul(x, FAdd(y, z)) = FAdd(FMul(x, y), FMul(x, z))
    /\ FSub(FAdd(x, y), y) = x
    /\ (x # "0x0" => FMul(x, FInv(x)) = "0x1")
    /\ FPow(x, BNOf(b + 1)) = FMul(x, FPow(x, BNOf(b)))
    /\ FPow(x, PMinus1) = IF x = "0x0" THEN "0x0" ELSE "0x1"
    /\ FAdd(PMinus1, "0x1") = "0x0"
    /\ BNAdd(PMinus1, "0x1") = P
BytesOK ==
    /\ BHLeadingZeroBits("00ff") = 8
    /\ BHLeadingZeroBits("0000") = 16
    /\ BHLeadingZeroBits("10") = 3
    /\ BHLeadingZeroBits("01") = 7
    /\ BHLeadingZeroBits("80") = 0
    /\ BHLeadingZeroBits("") = 0
    /\ BHOfNat("0x0123456789abcded", 8) = "0123456789abcded"
    /\ BHOfNat("0x1", 32) = "0000000000000000000000000000000000000000000000000000000000000001"
    /\ BHCat("ab", "cd") = "abcd"
    /\ BHSlice("aabbccdd", 1, 3) = "bbcc"
    /\ BHToNat("00ff") = "0xff"
    /\ BHLen("aabbcc") = 3
    /\ BNBitRev("0x1", 4) = "0x8"
    /\ BNBitRev("0x6", 3) = "0x3"
    /\ BNBitRev("0x0", 0) = "0x0"
    /\ BNLowBits("0x1ff", 8) = "0xff"
    /\ BNIsPow2("0x40") /\ ~BNIsPow2("0x41") /\ ~BNIsPow2("0x0")
    /\ RootOfUnity(0) = "0x1" /\ RootOfUnity(1) = PMinus1
AllOK == SmallOK /\ BigOK /\ BytesOK
=============================================================================
