CONSTANT Stone6 = FALSE
CONSTANT Emit = TRUE
INIT Init
NEXT Next
INVARIANT Binds
INVARIANT EmitReplay
CHECK_DEADLOCK FALSE
