-------------------------------- MODULE Total --------------------------------
(* C18: totality of the verifier on malformed proofs, at the level of *shapes*.            *)
(* The verifier is a sequence of steps; a step either is a guard (a check that rejects) or   *)
(* an access (indexing a vector, slicing, a length assertion, a conversion) that is only     *)
(* defined under a precondition on the shape of the proof.  Totality = for every shape, every *)
(* access that is reached has its precondition implied by the guards passed before it; then   *)
(* the run ends in "accept-or-reject", never in "undefined" (a panic in the code).            *)
(* Each G_* constant is a guard of the code (FALSE = the pinned tree lacked it).              *)
EXTENDS Naturals, Sequences, TLC, Json
CONSTANTS G_FriCfgLens,   \* fri config: |fri_step_sizes| = n_layers, |inner_layers| = n_layers - 1
          G_OodsLen,      \* |oods_values| = MASK + DEGREE
          G_CommitLens,   \* |unsent inner layers| = n_layers - 1, |last layer| = 2^log_last   (before fri_commit)
          G_WitnessLen,   \* |fri_witness.layers| = n_layers - 1
          G_LeafCheck,    \* a missing sibling leaf is an error value
          G_PageBounds    \* main page long enough for the program and output cells, at the right addresses
Mask == 2
Deg == 2
MinL == 2
MaxL == 3

VARIABLES shape, pc, verdict
vars == <<shape, pc, verdict>>

Shapes == [ nLayers : 0..4, lenSteps : 0..4, lenInnerCfg : 0..3, lenUnsentInner : 0..3, logLast : 0..1, lenLast : 0..3,
            lenWitLayers : 0..3, leavesShort : BOOLEAN, lenOods : 0..(Mask + Deg + 1), pageShort : BOOLEAN, firstStepZero : BOOLEAN ]
Init == shape \in Shapes /\ pc = 1 /\ verdict = <<"running", "">>

\* the program: <<kind, name, predicate>>;  guard: passes iff predicate; access: defined iff predicate
s == shape
Prog == <<
  <<"guard",  "n_layers in range",            s.nLayers >= MinL /\ s.nLayers <= MaxL>>,
  <<"guard",  "first step present and zero",  s.lenSteps >= 1 /\ s.firstStepZero>>,
  <<"guard",  "G_FriCfgLens",                 G_FriCfgLens => (s.lenSteps = s.nLayers /\ s.lenInnerCfg = s.nLayers - 1)>>,
  <<"access", "fri config loop: fri_step_sizes[i], inner_layers[i-1]", s.lenSteps >= s.nLayers /\ s.lenInnerCfg >= s.nLayers - 1>>,
  <<"guard",  "G_OodsLen",                    G_OodsLen => s.lenOods = Mask + Deg>>,
  <<"access", "oods[len-2], oods[len-1], mask values", s.lenOods >= Mask + Deg>>,
  <<"guard",  "G_CommitLens",                 G_CommitLens => (s.lenUnsentInner = s.nLayers - 1 /\ s.lenLast = 2^s.logLast)>>,
  <<"access", "fri_commit: unsent inner_layers[i], configs[i]", s.lenUnsentInner >= s.nLayers - 1 /\ s.lenInnerCfg >= s.nLayers - 1>>,
  <<"access", "fri_commit: assert |last layer| = 2^log_last", s.lenLast = 2^s.logLast>>,
  <<"guard",  "G_WitnessLen",                 G_WitnessLen => s.lenWitLayers = s.nLayers - 1>>,
  <<"access", "fri_verify: layer_witness[i]", s.lenWitLayers >= s.nLayers - 1>>,
  <<"access", "fri_verify: fri_step_sizes[1..]", s.lenSteps >= 1>>,
  <<"guard",  "G_LeafCheck",                  G_LeafCheck => ~s.leavesShort>>,
  <<"access", "coset assembly: next witness leaf", ~s.leavesShort>>,
  <<"guard",  "last layer length",            s.lenLast = 2^s.logLast>>,
  <<"guard",  "G_PageBounds",                 G_PageBounds => ~s.pageShort>>,
  <<"access", "main page slices for program and output", ~s.pageShort>> >>

Step ==
  /\ verdict[1] = "running" /\ pc <= Len(Prog)
  /\ LET st == Prog[pc] IN
     IF st[1] = "guard"
     THEN IF st[3] THEN pc' = pc + 1 /\ UNCHANGED verdict ELSE verdict' = <<"reject", st[2]>> /\ UNCHANGED pc
     ELSE IF st[3] THEN pc' = pc + 1 /\ UNCHANGED verdict ELSE verdict' = <<"undefined", st[2]>> /\ UNCHANGED pc
  /\ UNCHANGED shape
Finish == verdict[1] = "running" /\ pc > Len(Prog) /\ verdict' = <<"accept", "">> /\ UNCHANGED <<shape, pc>>
Next == Step \/ Finish
Spec == Init /\ [][Next]_vars

TotalInv == verdict[1] # "undefined"
=============================================================================
