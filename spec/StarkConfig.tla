---------------------------- MODULE StarkConfig ----------------------------
(* C11: the property predicate ConfigOK (every number read as a non-negative integer) versus the  *)
(* code-shaped Validate (field arithmetic modulo P, checks in the order of StarkConfig::validate,  *)
(* FriConfig::validate, TracesConfig::validate).  GuardsFixed = FALSE models the pinned tree,      *)
(* which lacked the range checks on log_n_cosets / n_queries and the tie between the FRI input     *)
(* degree and the trace domain; TRUE models the repaired code.  Declared numbers live in a small   *)
(* prime field so that wrap-around values (P-1, P-2) exist in the model; the harness maps a model  *)
(* value x > P/2 to p - (P - x) at the real prime.                                                 *)
EXTENDS Naturals, Sequences, FiniteSets, TLC, Json

CONSTANTS P,            \* model prime (declared numbers live in 0..P-1)
          GuardsFixed,  \* FALSE = pinned code, TRUE = with the missing guards
          MaxDevs,      \* 1 or 2 simultaneous deviations from the honest base
          Emit

FAdd(a,b) == (a+b) % P
FSub(a,b) == (a + P - b) % P
FMul(a,b) == (a*b) % P
Pow2(k) == 2^k   \* only used for k <= 4

\* ---------------- property predicate (C11), integers ----------------
SumSeq(s) == LET RECURSIVE S(_) S(i) == IF i = 0 THEN 0 ELSE s[i] + S(i-1) IN S(Len(s))

VecOK(v, h, nvf) == v.height = h /\ v.nvf = nvf

ConfigOK(c, sec, n1, n2) ==
  /\ c.pow \in 20..50
  /\ c.logCosets \in 1..16
  /\ c.nQueries \in 1..48
  /\ c.nQueries * c.logCosets + c.pow >= sec
  /\ c.orig.ncols = n1 /\ c.inter.ncols = n2
  /\ LET e == c.logTrace + c.logCosets IN
     /\ VecOK(c.orig.vec, e, c.nvf) /\ VecOK(c.inter.vec, e, c.nvf) /\ VecOK(c.comp.vec, e, c.nvf)
     /\ c.fri.nLayers \in 2..15
     /\ Len(c.fri.steps) = c.fri.nLayers /\ Len(c.fri.inner) = c.fri.nLayers - 1
     /\ c.fri.steps[1] = 0
     /\ \A i \in 2..c.fri.nLayers : c.fri.steps[i] \in 1..4
     /\ c.fri.logLast <= 15
     /\ \A i \in 2..c.fri.nLayers :
          /\ c.fri.inner[i-1].ncols = Pow2(c.fri.steps[i])
          /\ VecOK(c.fri.inner[i-1].vec, c.fri.logInput - SumSeq(SubSeq(c.fri.steps, 1, i)), c.nvf)
     /\ c.fri.logInput = SumSeq(c.fri.steps) + c.fri.logLast + c.logCosets
     /\ c.fri.logInput = e

\* ---------------- code-shaped validation over F_P ----------------
\* returns "ok", "reject" or "panic"
VecVal(v, h, nvf) == v.height = h /\ v.nvf = nvf

FriValidate(f, logCosets, nvf) ==
  IF f.nLayers < 2 \/ f.nLayers > 15 THEN <<"reject", 0>>
  ELSE IF f.logLast > 15 THEN <<"reject", 0>>
  ELSE IF Len(f.steps) = 0 THEN <<"reject", 0>>
  ELSE IF f.steps[1] # 0 THEN <<"reject", 0>>
  ELSE IF GuardsFixed /\ (Len(f.steps) # f.nLayers \/ Len(f.inner) # f.nLayers - 1) THEN <<"reject", 0>>   \* fix aa508b5
  ELSE
    LET RECURSIVE Loop(_, _, _)
        Loop(i, logIn, sum) ==
          IF i > f.nLayers THEN
             IF FAdd(FAdd(sum, f.logLast), logCosets) # f.logInput THEN <<"reject", 0>> ELSE <<"ok", FAdd(sum, f.logLast)>>
          ELSE IF i > Len(f.steps) \/ (i-1) > Len(f.inner) THEN <<"panic", 0>>      \* indexing self.fri_step_sizes[i] / inner_layers[i-1]
          ELSE LET st == f.steps[i]  li == FSub(logIn, st) IN
               IF st < 1 \/ st > 4 THEN <<"reject", 0>>
               ELSE IF f.inner[i-1].ncols # Pow2(st) THEN <<"reject", 0>>
               ELSE IF ~VecVal(f.inner[i-1].vec, li, nvf) THEN <<"reject", 0>>
               ELSE Loop(i+1, li, FAdd(sum, st))
    IN Loop(2, f.logInput, 0)

Validate(c, sec, n1, n2) ==
  IF c.pow < 20 \/ c.pow > 50 THEN "reject"
  ELSE IF ~(sec <= FAdd(FMul(c.nQueries, c.logCosets), c.pow)) THEN "reject"
  ELSE IF GuardsFixed /\ ~(c.logCosets \in 1..16 /\ c.nQueries \in 1..48) THEN "reject"
  ELSE LET e == FAdd(c.logTrace, c.logCosets) IN
  IF c.orig.ncols < 1 \/ c.orig.ncols > 128 \/ c.inter.ncols < 1 \/ c.inter.ncols > 128 THEN "reject"
  ELSE IF c.orig.ncols # n1 \/ c.inter.ncols # n2 THEN "reject"
  ELSE IF ~VecVal(c.orig.vec, e, c.nvf) \/ ~VecVal(c.inter.vec, e, c.nvf) THEN "reject"
  ELSE IF ~VecVal(c.comp.vec, e, c.nvf) THEN "reject"
  ELSE LET r == FriValidate(c.fri, c.logCosets, c.nvf) IN
       IF r[1] \in {"reject", "panic"} THEN r[1]
       ELSE IF GuardsFixed /\ r[2] # c.logTrace THEN "reject"      \* Cairo: assert log_expected_input_degree = log_trace_domain_size
       ELSE "ok"

\* ---------------- exploration: base config + up to two deviations ----------------
Vec(h, nvf) == [height |-> h, nvf |-> nvf]
Base == [ pow |-> 30, nQueries |-> 10, logCosets |-> 2, logTrace |-> 9, nvf |-> 5,
          orig  |-> [ncols |-> 7, vec |-> Vec(11, 5)],
          inter |-> [ncols |-> 3, vec |-> Vec(11, 5)],
          comp  |-> [ncols |-> 2, vec |-> Vec(11, 5)],
          fri   |-> [logInput |-> 11, nLayers |-> 3, steps |-> <<0, 4, 3>>, logLast |-> 2,
                     inner |-> << [ncols |-> 16, vec |-> Vec(7, 5)], [ncols |-> 8, vec |-> Vec(4, 5)] >> ] ]

\* Hi is the model's stand-in for a huge power of two (the harness lifts q*Hi + r to q*2^64 + r, q*2^128 + r and q*2^192 + r):
\* numbers whose low machine word looks valid
Hi == 1024
Around(S) == UNION { {IF x = 0 THEN 0 ELSE x - 1, x, x + 1} : x \in S }
Wrap == {P - 2, P - 1}
Vals(S) == Around(S) \cup Wrap \cup {0}

Devs ==
     { <<"pow", v>> : v \in Around({20, 50}) \cup {0, 255} }
  \cup { <<"nQueries", v>> : v \in Vals({1, 48}) \cup {4096} }
  \cup { <<"logCosets", v>> : v \in Vals({1, 16}) }
  \cup { <<"logTrace", v>> : v \in Vals({9}) }
  \cup { <<"nvf", v>> : v \in Vals({5}) }
  \cup { <<"orig.ncols", v>> : v \in Vals({7, 128}) }
  \cup { <<"inter.ncols", v>> : v \in Vals({3}) }
  \cup { <<"orig.height", v>> : v \in Vals({11}) }
  \cup { <<"inter.height", v>> : v \in Vals({11}) }
  \cup { <<"comp.height", v>> : v \in Vals({11}) }
  \cup { <<"comp.nvf", v>> : v \in Around({5}) }
  \cup { <<"fri.logInput", v>> : v \in Vals({11}) }
  \cup { <<"fri.nLayers", v>> : v \in Vals({2, 3, 15}) }
  \cup { <<"fri.logLast", v>> : v \in Vals({2, 15}) }
  \cup { <<"fri.step2", v>> : v \in Vals({1, 4}) }
  \cup { <<"fri.step1", v>> : v \in {0, 1, P-1} }
  \cup { <<"fri.inner1.ncols", v>> : v \in Around({16}) \cup {8} }
  \cup { <<"fri.inner1.height", v>> : v \in Vals({7}) }
  \cup { <<"fri.inner2.height", v>> : v \in Vals({4}) }
  \cup { <<"fri.inner2.nvf", v>> : v \in Around({5}) }
  \cup { <<"fri.shiftAll", v>> : v \in {1, 2, 3} }      \* consistent re-declaration: logInput, inner heights, logLast all +v
  \cup { <<"fri.dropStep", 0>>, <<"fri.dropInner", 0>> }
  \cup { <<"fri.extraInner", 0>>, <<"fri.extraStep", 0>> }   \* surplus trailing entries in the per-layer vectors
  \cup { <<"fri.dropInnerRebalanced", 0>> }              \* last inner layer missing, its step moved into the last-layer bound
  \cup { <<"fri.addLayer", 0>> }                        \* one more layer, re-telescoped: still a valid configuration
  \cup { <<"cosetsWrap", v>> : v \in {P - 2, P - 1, 0} } \* blow-up exponent taken modulo the field, everything re-declared consistently
  \cup { <<"hi.nQueries", v>> : v \in {Hi + 10, 3*Hi + 1} }      \* only the low word is in range
  \cup { <<"hi.nLayers", v>> : v \in {Hi + 3} }
  \cup { <<"hi.step2", v>> : v \in {Hi + 1, Hi + 4, 3*Hi + 2} } \* huge step, everything else re-declared consistently with it
  \cup { <<"hi.logLast", v>> : v \in {Hi + 2, 3*Hi + 2} }       \* huge last-layer bound, consistently re-declared
  \cup { <<"hi.logCosets", v>> : v \in {Hi + 2} }              \* huge blow-up exponent, consistently re-declared
  \cup { <<"hi.ncols", v>> : v \in {Hi + 7} }
  \cup { <<"hi.nvf", v>> : v \in {Hi + 5} }
  \cup { <<"fri.fifteenLayers", 0>> }                            \* the largest legal schedule: fourteen steps of 1 (a valid configuration)
  \cup { <<"fri.zeroStep", 0>> }                                 \* a zero step after the first, with a one-column layer of unchanged height: consistent, but step 0 is out of range
  \cup { <<"fri.step1Neg", k>> : k \in {1, 2} }                  \* first step -k (mod the field), k more bits in the last layer: every sum still closes
  \cup { <<"inv.nQueries", m>> : m \in {1, 21, 41} }            \* n_queries = m / log_n_cosets in the field: the product with log_n_cosets is the small number m
  \cup { <<"traceShift", v>> : v \in {1, 2} }            \* trace exponent and every height +v, FRI description unchanged apart from heights

Apply(c, d) ==
  CASE d[1] = "pow" -> [c EXCEPT !.pow = d[2]]
    [] d[1] = "nQueries" -> [c EXCEPT !.nQueries = d[2]]
    [] d[1] = "logCosets" -> [c EXCEPT !.logCosets = d[2]]
    [] d[1] = "logTrace" -> [c EXCEPT !.logTrace = d[2]]
    [] d[1] = "nvf" -> [c EXCEPT !.nvf = d[2]]
    [] d[1] = "orig.ncols" -> [c EXCEPT !.orig.ncols = d[2]]
    [] d[1] = "inter.ncols" -> [c EXCEPT !.inter.ncols = d[2]]
    [] d[1] = "orig.height" -> [c EXCEPT !.orig.vec.height = d[2]]
    [] d[1] = "inter.height" -> [c EXCEPT !.inter.vec.height = d[2]]
    [] d[1] = "comp.height" -> [c EXCEPT !.comp.vec.height = d[2]]
    [] d[1] = "comp.nvf" -> [c EXCEPT !.comp.vec.nvf = d[2]]
    [] d[1] = "fri.logInput" -> [c EXCEPT !.fri.logInput = d[2]]
    [] d[1] = "fri.nLayers" -> [c EXCEPT !.fri.nLayers = d[2]]
    [] d[1] = "fri.logLast" -> [c EXCEPT !.fri.logLast = d[2]]
    [] d[1] = "fri.step2" -> [c EXCEPT !.fri.steps[2] = d[2]]
    [] d[1] = "fri.step1" -> [c EXCEPT !.fri.steps[1] = d[2]]
    [] d[1] = "fri.inner1.ncols" -> [c EXCEPT !.fri.inner[1].ncols = d[2]]
    [] d[1] = "fri.inner1.height" -> [c EXCEPT !.fri.inner[1].vec.height = d[2]]
    [] d[1] = "fri.inner2.height" -> [c EXCEPT !.fri.inner[2].vec.height = d[2]]
    [] d[1] = "fri.inner2.nvf" -> [c EXCEPT !.fri.inner[2].vec.nvf = d[2]]
    [] d[1] = "fri.shiftAll" -> [c EXCEPT !.fri.logInput = FAdd(@, d[2]), !.fri.logLast = FAdd(@, d[2]),
                                          !.fri.inner[1].vec.height = FAdd(@, d[2]), !.fri.inner[2].vec.height = FAdd(@, d[2])]
    [] d[1] = "fri.extraInner" -> [c EXCEPT !.fri.inner = Append(@, [ncols |-> 2, vec |-> Vec(3, 5)])]
    [] d[1] = "fri.extraStep" -> [c EXCEPT !.fri.steps = Append(@, 1)]
    [] d[1] = "fri.dropInnerRebalanced" -> [c EXCEPT !.fri.inner = SubSeq(@, 1, Len(@) - 1),
                                                     !.fri.logLast = FAdd(@, c.fri.steps[Len(c.fri.steps)] % P)]
    [] d[1] = "fri.addLayer" -> [c EXCEPT !.fri.nLayers = 4, !.fri.steps = <<0, 4, 3, 1>>, !.fri.logLast = 1,
                                          !.fri.inner = Append(@, [ncols |-> 2, vec |-> Vec(3, 5)])]
    [] d[1] = "cosetsWrap" -> LET e == FAdd(c.logTrace, d[2]) IN
                              [c EXCEPT !.logCosets = d[2], !.orig.vec.height = e, !.inter.vec.height = e, !.comp.vec.height = e,
                                        !.fri.logInput = e, !.fri.inner[1].vec.height = FSub(e, 4), !.fri.inner[2].vec.height = FSub(e, 7)]
    [] d[1] = "traceShift" -> LET e == FAdd(FAdd(c.logTrace, d[2]), c.logCosets) IN
                              [c EXCEPT !.logTrace = FAdd(@, d[2]), !.orig.vec.height = e, !.inter.vec.height = e, !.comp.vec.height = e,
                                        !.fri.logInput = e, !.fri.inner[1].vec.height = FSub(e, 4), !.fri.inner[2].vec.height = FSub(e, 7)]
    [] d[1] = "fri.fifteenLayers" ->
         [c EXCEPT !.logTrace = 16, !.orig.vec.height = 18, !.inter.vec.height = 18, !.comp.vec.height = 18,
                   !.fri = [logInput |-> 18, nLayers |-> 15, steps |-> [i \in 1..15 |-> IF i = 1 THEN 0 ELSE 1], logLast |-> 2,
                            inner |-> [i \in 1..14 |-> [ncols |-> 2, vec |-> Vec(18 - i, 5)]]]]
    [] d[1] = "fri.zeroStep" -> [c EXCEPT !.fri.nLayers = 4, !.fri.steps = <<0, 0, 4, 3>>,
                                           !.fri.inner = <<[ncols |-> 1, vec |-> Vec(11, 5)]>> \o @]
    [] d[1] = "fri.step1Neg" -> [c EXCEPT !.fri.steps[1] = P - d[2], !.fri.logLast = @ + d[2]]
    [] d[1] = "inv.nQueries" -> IF c.logCosets % P = 0 THEN c          \* no quotient by zero: the deviation leaves the configuration as it is
                               ELSE [c EXCEPT !.nQueries = FMul(d[2] % P, CHOOSE x \in 1..(P - 1) : FMul(x, c.logCosets % P) = 1)]
    [] d[1] = "hi.nQueries" -> [c EXCEPT !.nQueries = d[2]]
    [] d[1] = "hi.nLayers" -> [c EXCEPT !.fri.nLayers = d[2]]
    [] d[1] = "hi.ncols" -> [c EXCEPT !.orig.ncols = d[2]]
    [] d[1] = "hi.nvf" -> [c EXCEPT !.nvf = d[2]]
    [] d[1] = "hi.step2" -> LET e == d[2] + 7 IN
                            [c EXCEPT !.fri.steps[2] = d[2], !.fri.inner[1].ncols = Pow2(d[2] % Hi), !.logTrace = d[2] + 5,
                                      !.orig.vec.height = e, !.inter.vec.height = e, !.comp.vec.height = e, !.fri.logInput = e]
    [] d[1] = "hi.logLast" -> LET e == d[2] + 9 IN
                              [c EXCEPT !.fri.logLast = d[2], !.logTrace = d[2] + 7, !.fri.logInput = e,
                                        !.orig.vec.height = e, !.inter.vec.height = e, !.comp.vec.height = e,
                                        !.fri.inner[1].vec.height = FSub(e, 4), !.fri.inner[2].vec.height = FSub(e, 7)]
    [] d[1] = "hi.logCosets" -> LET e == d[2] + 9 IN
                                [c EXCEPT !.logCosets = d[2], !.fri.logInput = e,
                                          !.orig.vec.height = e, !.inter.vec.height = e, !.comp.vec.height = e,
                                          !.fri.inner[1].vec.height = FSub(e, 4), !.fri.inner[2].vec.height = FSub(e, 7)]
    [] d[1] = "fri.dropStep" -> [c EXCEPT !.fri.steps = SubSeq(@, 1, Len(@) - 1)]
    [] d[1] = "fri.dropInner" -> [c EXCEPT !.fri.inner = SubSeq(@, 1, Len(@) - 1)]

VARIABLES cfg, sec, devs, verdict
vars == <<cfg, sec, devs, verdict>>

Init == \E d1 \in Devs \cup {<<"none", 0>>} : \E d2 \in (IF MaxDevs >= 2 THEN Devs ELSE {}) \cup {<<"none", 0>>} :
        \E s \in {0, 20, 49, 50, 51, 52, P - 1} :
           /\ devs = <<d1, d2>>
           /\ cfg = (IF d2[1] = "none" THEN (IF d1[1] = "none" THEN Base ELSE Apply(Base, d1))
                     ELSE Apply(IF d1[1] = "none" THEN Base ELSE Apply(Base, d1), d2))
           /\ sec = s
           /\ verdict = "pending"

Run == /\ verdict = "pending"
       /\ verdict' = Validate(cfg, sec, 7, 3)
       /\ UNCHANGED <<cfg, sec, devs>>

Next == Run
Exact == verdict # "pending" => ((verdict = "ok") <=> ConfigOK(cfg, sec, 7, 3))
NoPanic == verdict # "panic"
EmitReplay == (Emit /\ verdict # "pending") =>
    PrintT(<<"REPLAY", ToJson([cfg |-> cfg, sec |-> sec, n1 |-> 7, n2 |-> 3, devs |-> devs, P |-> P, hi |-> Hi,
                               model |-> verdict, expect |-> IF ConfigOK(cfg, sec, 7, 3) THEN "ok" ELSE "reject"])>>)
=============================================================================
