----------------------------- MODULE MC_FriFold -----------------------------
(* C06, folding clause, exhaustive over a small field: for k = 1..4, every monomial X^d     *)
(* with d <= 2^(k+1)+1, every coset start x and every challenge b in B:                      *)
(*    butterfly (code) = FoldDef (interpolation formula) = 2^k * b^j * y^m                    *)
(* where d = j + 2^k m, y = x^(2^k).  Folding is linear in f, so the monomial basis suffices; *)
(* both sides are polynomials of degree < 2^k <= 16 in b, so |B| >= 17 points decide all b.   *)
EXTENDS SmallField, TLC
CONSTANTS BMax,   \* challenges 0..BMax
          XMax    \* coset starts 1..XMax
G == INSTANCE FriFoldG WITH Add <- SAdd, Sub <- SSub, Mul <- SMul, Inv <- SInv, Zero <- 0, One <- 1,
                            RootOf <- SRoot, BitRevOp <- BitRev
VARIABLES k, d, x, b
vars == <<k, d, x, b>>
Init == /\ k \in 1..4 /\ d \in 0..(2^(k + 1) + 1) /\ x \in 1..XMax /\ b \in 0..BMax
Next == UNCHANGED vars

CosetVals == [i \in 1..(2^k) |-> SPow(SMul(x, G!GroupBR(k)[i]), d)]
Spec2 == LET j == d % (2^k)  m == d \div (2^k)
         IN SMul((2^k) % P, SMul(SPow(b, j), SPow(SPow(x, 2^k), m)))
ButterflyIsFolding == G!FoldButterfly(CosetVals, 0, k, b, SInv(x)) = Spec2
DefIsFolding == G!FoldDef(CosetVals, k, b, SInv(x)) = Spec2
\* the group constants: order exactly 2^k, bit-reversed layout, the first 2^j elements form the subgroup of order 2^j
GroupOK == (d = 0 /\ x = 1 /\ b = 0) =>
           /\ SPow(SRoot(k), 2^k) = 1 /\ SPow(SRoot(k), 2^(k - 1)) = P - 1
           /\ \A j \in 1..k : \A i \in 1..(2^j) : G!GroupBR(4)[i] = G!GroupBR(j)[i]
=============================================================================
