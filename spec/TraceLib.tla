------------------------------ MODULE TraceLib ------------------------------
(* Common plumbing of the trace specifications: the recorded events, the cursor, the    *)
(* acceptance postcondition.  Events are JSON objects, one per line, in IOEnv.TRACE.    *)
EXTENDS Naturals, Sequences, TLC, Json, IOUtils
Rec == ndJsonDeserialize(IOEnv.TRACE)
VARIABLE l
Ev == Rec[l]
Is(e) == l <= Len(Rec) /\ Ev.ev = e
Consume == l' = l + 1
Has(f) == f \in DOMAIN Ev
\* all events consumed; otherwise print the first event no action could explain
Accepted ==
    IF TLCGet("stats").diameter - 1 = Len(Rec) THEN TRUE
    ELSE /\ PrintT(<<"TRACE-REJECTED", TLCGet("stats").diameter>>)
         /\ FALSE
=============================================================================
