CONSTANT Stone6 = FALSE
CONSTANT Emit = TRUE
CONSTANT Small = TRUE
INIT Init
NEXT Next
INVARIANT Binds
INVARIANT EmitReplay
CHECK_DEADLOCK FALSE
