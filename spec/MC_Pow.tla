------------------------------- MODULE MC_Pow -------------------------------
(* For every difficulty n in 0..128 and every hash value pattern with exactly k leading    *)
(* zero bits (k in 0..256, remaining bits all ones / all zeros after the first one /        *)
(* alternating), the code's threshold comparison is the property's "n leading zero bits".   *)
EXTENDS Pow, Sequences, TLC
VARIABLES n, k, fill
vars == <<n, k, fill>>
Init == n \in 0..128 /\ k \in 0..256 /\ fill \in {"ones", "zeros", "alt"}
Next == UNCHANGED vars

\* 256-bit value with exactly k leading zero bits, as a 32-byte hex string
Pattern(kk, f) ==
    IF kk = 256 THEN BHOfNat("0x0", 32)
    ELSE LET top == BNPow2(255 - kk)
             rest == CASE f = "ones"  -> BNSub(top, "0x1")
                       [] f = "zeros" -> "0x0"
                       [] f = "alt"   -> BNDiv(BNSub(top, "0x1"), "0x3")
         IN BHOfNat(BNAdd(top, rest), 32)

PatternOK == BHLeadingZeroBits(Pattern(k, fill)) = k
ThresholdIsLeadingZeros == CodeAccept(Pattern(k, fill), n) <=> Accept(Pattern(k, fill), n)
AcceptIffEnoughZeros == Accept(Pattern(k, fill), n) <=> (k >= n)
ConfigRange == ConfigValid(n) <=> (n \in 20..50)
=============================================================================
