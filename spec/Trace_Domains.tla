--------------------------- MODULE Trace_Domains ---------------------------
(* Trace validation for C12: every record is the result of the real StarkDomains::new(t, c). *)
(* TLC recomputes the specification's values at the real field and additionally checks the  *)
(* order properties directly on the values the code returned.                                *)
EXTENDS Domains, TLC, Json, IOUtils
Rec == ndJsonDeserialize(IOEnv.TRACE)
VARIABLE l
Ev == Rec[l]
Init == l = 1
DomainsEvent ==
    /\ l <= Len(Rec)
    /\ Ev.ev = "domains"
    /\ LET t == Ev.t  c == Ev.c IN
       /\ Ev.log_eval = BNOf(t + c)
       /\ Ev.log_trace = BNOf(t)
       /\ Ev.eval_gen = EvalGen(t, c)
       /\ Ev.trace_gen = TraceGen(t)
       /\ DomainsOK(t, c, Ev.eval_gen, Ev.trace_gen, Ev.eval_size, Ev.trace_size)
    /\ l' = l + 1
Next == DomainsEvent
Accepted ==
    IF TLCGet("stats").diameter - 1 = Len(Rec) THEN TRUE
    ELSE /\ PrintT(<<"TRACE-REJECTED", TLCGet("stats").diameter>>)
         /\ FALSE
=============================================================================
