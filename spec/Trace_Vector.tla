---------------------------- MODULE Trace_Vector ----------------------------
(* Trace validation of vector_commitment_decommit: the hooked events of the real code     *)
(* must be explainable as a derivation of the root from the queried leaves and the         *)
(* witness.  Order of node derivations is free; what is fixed is the data flow:            *)
(*  - a node is derived from two ready nodes that are siblings, or from one ready node and *)
(*    the next unused witness element;                                                     *)
(*  - the hash used at depth d is the verifier-friendly one iff nvf >= d (as integers);    *)
(*  - the hash value is the one the build's primitive gives (field hok, recomputed by the  *)
(*    harness with an independent implementation);                                         *)
(*  - the verdict is the comparison of node 1 with the committed root.                     *)
EXTENDS TraceLib, StarkField, FiniteSets

VARIABLES ready,    \* sequence (bag) of <<heap index, value, depth>> not yet consumed
          authseq, used, root, nvf, phase, lastok, nchecked
vvars == <<ready, authseq, used, root, nvf, phase, lastok, nchecked>>
vars == <<l, vvars>>

Init == /\ l = 1 /\ ready = <<>> /\ authseq = <<>> /\ used = 0 /\ root = "none" /\ nvf = "0x0"
        /\ phase = "idle" /\ lastok = "none" /\ nchecked = 0

RemoveAt(s, i) == SubSeq(s, 1, i - 1) \o SubSeq(s, i + 1, Len(s))
Pos(s, idx, depth) == {i \in 1..Len(s) : s[i][1] = idx /\ s[i][3] = depth}

Reset == /\ Is("reset") /\ Consume
         /\ ready' = <<>> /\ authseq' = <<>> /\ used' = 0 /\ root' = "none" /\ phase' = "idle" /\ lastok' = "none"
         /\ UNCHANGED <<nvf, nchecked>>

VcBegin ==
    /\ Is("vc.begin") /\ phase = "idle" /\ Consume
    /\ BNFitsInt(Ev.height) /\ BNToInt(Ev.height) <= 64
    /\ LET h == BNToInt(Ev.height) IN
       ready' = [i \in 1..Len(Ev.idx) |-> <<BNAdd(Ev.idx[i], BNPow2(h)), Ev.val[i], Ev.height>>]
    /\ authseq' = Ev.auth /\ used' = 0 /\ root' = Ev.root /\ nvf' = Ev.nvf /\ phase' = "open" /\ lastok' = "none"
    /\ UNCHANGED nchecked

VcNodePair ==
    /\ Is("vc.node") /\ phase = "open" /\ Ev.src = "pair" /\ Consume
    /\ BNMod(Ev.idx, "0x2") = "0x0"
    /\ Ev.hok
    /\ Ev.friendly = BNLeq(Ev.depth, nvf)
    \* the right sibling is recognised by its heap index alone (as the queue machine of VectorCommitment.tla does):
    \* for in-range indices the depths agree; for out-of-range aliases the run ends in a rejection either way
    /\ \E i \in Pos(ready, Ev.idx, Ev.depth) : \E j \in {k \in 1..Len(ready) : ready[k][1] = BNAdd(Ev.idx, "0x1")} :
          /\ ready[i][2] = Ev.l /\ ready[j][2] = Ev.r
          /\ LET r1 == RemoveAt(ready, i)
                 j1 == IF j > i THEN j - 1 ELSE j
             IN ready' = Append(RemoveAt(r1, j1), <<BNDiv(Ev.idx, "0x2"), Ev.out, FSub(Ev.depth, "0x1")>>)
    /\ UNCHANGED <<authseq, used, root, nvf, phase, lastok, nchecked>>

Sibling(idx) == IF BNMod(idx, "0x2") = "0x0" THEN BNAdd(idx, "0x1") ELSE BNSub(idx, "0x1")

VcNodeAuth ==
    /\ Is("vc.node") /\ phase = "open" /\ Ev.src = "auth" /\ Consume
    /\ Ev.hok
    /\ Ev.friendly = BNLeq(Ev.depth, nvf)
    /\ Ev.auth_pos = used /\ used < Len(authseq)
    /\ \E i \in Pos(ready, Ev.idx, Ev.depth) :
          /\ IF BNMod(Ev.idx, "0x2") = "0x0"
             THEN ready[i][2] = Ev.l /\ authseq[used + 1] = Ev.r
             ELSE ready[i][2] = Ev.r /\ authseq[used + 1] = Ev.l
          /\ ready' = Append(RemoveAt(ready, i), <<BNDiv(Ev.idx, "0x2"), Ev.out, FSub(Ev.depth, "0x1")>>)
    /\ used' = used + 1
    /\ UNCHANGED <<authseq, root, nvf, phase, lastok, nchecked>>

VcEnd ==
    /\ Is("vc.end") /\ phase = "open" /\ Consume
    /\ \E i \in 1..Len(ready) : ready[i][1] = "0x1" /\ ready[i][2] = Ev.computed
    /\ Ev.ok = (Ev.computed = root)
    /\ lastok' = (IF Ev.ok THEN "true" ELSE "false") /\ phase' = "idle" /\ nchecked' = nchecked + 1
    /\ UNCHANGED <<ready, authseq, used, root, nvf>>

\* the value returned to the caller (recorded by the harness)
VcResult ==
    /\ Is("vc.result") /\ Consume
    /\ Ev.ok = (lastok = "true")
    /\ phase' = "idle" /\ UNCHANGED <<ready, authseq, used, root, nvf, lastok, nchecked>>

Next == Reset \/ VcBegin \/ VcNodePair \/ VcNodeAuth \/ VcEnd \/ VcResult
=============================================================================
