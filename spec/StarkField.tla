---------------------------- MODULE StarkField ----------------------------
(* The STARK field p = 2^251 + 17*2^192 + 1, generator 3, 2-adicity 192, on top of   *)
(* BigField.  Elements are canonical "0x.." strings in [0, p).                       *)
EXTENDS Naturals, Sequences, BigField

P == "0x800000000000011000000000000000000000000000000000000000000000001"
PMinus1 == "0x800000000000011000000000000000000000000000000000000000000000000"
FGen == "0x3"
TwoAdicity == 192

FAdd(a, b) == BMAdd(a, b, P)
FSub(a, b) == BMSub(a, b, P)
FMul(a, b) == BMMul(a, b, P)
FPow(a, e) == BMPow(a, e, P)          \* e: natural as "0x.." (or a TLC Int)
FInv(a)    == BMInv(a, P)
FNeg(a)    == BMSub("0x0", a, P)
FDiv(a, b) == FMul(a, FInv(b))
FOf(n)     == BMNorm(BNOf(n), P)
IsFelt(a)  == BNLt(a, P)

\* primitive 2^k-th root of unity 3^((p-1)/2^k), 0 <= k <= 192
RootOfUnity(k) == FPow(FGen, BNDiv(PMinus1, BNPow2(k)))

RECURSIVE FSumSeq(_), FProdSeq(_), HornerRev(_, _, _)
FSumSeq(s)  == IF s = <<>> THEN "0x0" ELSE FAdd(Head(s), FSumSeq(Tail(s)))
FProdSeq(s) == IF s = <<>> THEN "0x1" ELSE FMul(Head(s), FProdSeq(Tail(s)))
\* sum_i c[i] x^(i-1), coefficients low to high
HornerRev(c, x, i) == IF i > Len(c) THEN "0x0" ELSE FAdd(c[i], FMul(x, HornerRev(c, x, i + 1)))
PolyEval(c, x) == HornerRev(c, x, 1)
=============================================================================
