-------------------------------- MODULE Builds --------------------------------
(* C03: which verifier build accepts an honest Stone proof.  A build fixes                  *)
(* (layout, commitment hash, Stone version); a proof file was produced for one such triple,  *)
(* with a friendly-layer count nvf and evaluation-domain exponent logEval.                   *)
(*  - another layout: the layout code / column counts / constraints differ        -> reject   *)
(*  - another Stone version: Stone 6 seeds the transcript with nvf                 -> reject   *)
(*  - another commitment hash: the proof-of-work hash is the hash family (Keccak /           *)
(*    Blake2s) and masked Merkle layers exist iff nvf <= logEval (the row layer of a          *)
(*    multi-column table sits at depth logEval + 1 and is friendly iff nvf >= logEval + 1)    *)
(*                                                                                 -> reject   *)
(*    iff the family differs or a masked layer exists; otherwise the proof does not depend     *)
(*    on the commitment hash at all and is accepted.                                           *)
EXTENDS Naturals, TLC, Json
Layouts == {"dex", "dynamic", "recursive", "recursive_with_poseidon", "small", "starknet", "starknet_with_keccak"}
Hashes == {"keccak_160_lsb", "keccak_248_lsb", "blake2s_160_lsb", "blake2s_248_lsb"}
Stones == {"stone5", "stone6"}
Family(h) == IF h \in {"keccak_160_lsb", "keccak_248_lsb"} THEN "keccak" ELSE "blake2s"

HasMaskedLayer(nvf, logEval) == nvf <= logEval
Accepts(bLayout, bHash, bStone, fLayout, fHash, fStone, nvf, logEval) ==
    /\ bLayout = fLayout
    /\ bStone = fStone
    /\ Family(bHash) = Family(fHash)
    /\ (HasMaskedLayer(nvf, logEval) => bHash = fHash)

VARIABLES b, f
Init == /\ b \in [layout : Layouts, hash : Hashes, stone : Stones]
        /\ f \in [layout : Layouts, hash : Hashes, stone : Stones, masked : BOOLEAN]
Next == UNCHANGED <<b, f>>
\* the proof's own build always accepts (completeness), and acceptance implies same layout and Stone version
OwnBuildAccepts == Accepts(f.layout, f.hash, f.stone, f.layout, f.hash, f.stone, IF f.masked THEN 10 ELSE 1000, 20)
AcceptImplies == Accepts(b.layout, b.hash, b.stone, f.layout, f.hash, f.stone, IF f.masked THEN 10 ELSE 1000, 20)
                    => (b.layout = f.layout /\ b.stone = f.stone /\ Family(b.hash) = Family(f.hash) /\ (f.masked => b.hash = f.hash))
Emit == PrintT(<<"REPLAY", ToJson([b_layout |-> b.layout, b_hash |-> b.hash, b_stone |-> b.stone,
                                   f_layout |-> f.layout, f_hash |-> f.hash, f_stone |-> f.stone, masked |-> f.masked,
                                   expect |-> IF Accepts(b.layout, b.hash, b.stone, f.layout, f.hash, f.stone, IF f.masked THEN 10 ELSE 1000, 20)
                                              THEN "accept" ELSE "reject"])>>)
=============================================================================
