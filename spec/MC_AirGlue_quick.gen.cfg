CONSTANT P = 97
CONSTANT Gen = 5
CONSTANT MaxBits = 4
CONSTANT MaxSpacing = 2
INIT Init
NEXT Next
INVARIANT DilutedOK
CHECK_DEADLOCK FALSE
