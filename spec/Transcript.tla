----------------------------- MODULE Transcript -----------------------------
(* The Fiat-Shamir transcript (crates/transcript/src/transcript.rs).                          *)
(*   absorb(msg):  digest := poseidon_hash_many(<<digest + 1>> \o msg);  counter := 0         *)
(*                 (a single felt is the one-element message; a u64 is absorbed as a felt)    *)
(*   squeeze:      out := poseidon_hash(digest, counter);  counter := counter + 1             *)
EXTENDS Terms, TLC

VARIABLES digest,    \* term
          counter,   \* Nat
          absorbed,  \* sequence of messages absorbed so far (abstract view)
          outs       \* sequence of <<challenge term, <<absorbed prefix, counter>>>> issued so far
tvars == <<digest, counter, absorbed, outs>>

TInit == /\ digest = Seed /\ counter = 0 /\ absorbed = <<>> /\ outs = <<>>

Absorb(msg) ==
    /\ digest' = PoseidonMany(<<Plus1(digest)>> \o msg)
    /\ counter' = 0
    /\ absorbed' = Append(absorbed, msg)
    /\ outs' = outs

SqueezeTerm(d, c) == Poseidon2(d, NatT(c))

Squeeze ==
    /\ outs' = Append(outs, <<SqueezeTerm(digest, counter), <<absorbed, counter>>>>)
    /\ counter' = counter + 1
    /\ UNCHANGED <<digest, absorbed>>

\* n consecutive squeezes as one step (random_felts_to_prover)
RECURSIVE SqueezeSeq(_, _, _, _)
SqueezeSeq(d, c, a, n) == IF n = 0 THEN <<>>
                          ELSE <<<<SqueezeTerm(d, c), <<a, c>>>>>> \o SqueezeSeq(d, c + 1, a, n - 1)
SqueezeMany(n) ==
    /\ outs' = outs \o SqueezeSeq(digest, counter, absorbed, n)
    /\ counter' = counter + n
    /\ UNCHANGED <<digest, absorbed>>

(* ---- the property (C08) on the model ---- *)
\* The digest term determines the absorbed history: decoding is a function of the term alone,
\* hence two histories with different absorbed prefixes have different digests (free constructors).
RECURSIVE DecodeDigest(_)
DecodeDigest(d) ==
    IF d = Seed THEN <<>>
    ELSE LET s == d[2] IN Append(DecodeDigest(Head(s)[2]), Tail(s))

DigestBindsHistory == DecodeDigest(digest) = absorbed

\* every challenge is the function SqueezeTerm of (digest of its prefix, counter), and the term
\* determines both: decode it back
ChallengeBindsPrefix ==
    \A i \in 1..Len(outs) :
        LET t == outs[i][1]  k == outs[i][2] IN
        /\ t[1] = "p2"
        /\ DecodeDigest(t[2]) = k[1]
        /\ t[3] = NatT(k[2])

\* challenges issued so far are pairwise different terms exactly when their keys differ
ChallengesDistinct ==
    \A i, j \in 1..Len(outs) : (outs[i][1] = outs[j][1]) <=> (outs[i][2] = outs[j][2])
NoRepeat == \A i, j \in 1..Len(outs) : i # j => outs[i][1] # outs[j][1]

\* later operations never change an issued challenge
IssuedIsStable == [][\A i \in 1..Len(outs) : outs'[i] = outs[i]]_tvars
=============================================================================
