CONSTANT MaxN = 5
INIT Init
NEXT Next
INVARIANT Holds
INVARIANT SameSet
CHECK_DEADLOCK FALSE
