// Module override for BigField.tla: arbitrary-precision naturals, modular arithmetic and byte
// strings for TLC (whose native integers are 32-bit).  Numbers are TLA+ strings "0x<hex>" in
// canonical form (lower case, no leading zeros, "0x0" for zero); byte strings are plain hex
// without prefix.  Compiled by scripts/setup.sh; TLC loads BigField.class from the spec directory.
import java.math.BigInteger;
import tlc2.value.impl.*;

public class BigField {
  static BigInteger bi(Value v) {
    if (v instanceof StringValue) {
      String s = ((StringValue) v).val.toString();
      if (s.startsWith("0x")) s = s.substring(2);
      if (s.isEmpty()) return BigInteger.ZERO;
      return new BigInteger(s, 16);
    }
    if (v instanceof IntValue) return BigInteger.valueOf(((IntValue) v).val);
    throw new RuntimeException("BigField: not a number: " + v);
  }
  static String str(Value v) {
    if (v instanceof StringValue) return ((StringValue) v).val.toString();
    throw new RuntimeException("BigField: not a string: " + v);
  }
  static int in(Value v) {
    if (v instanceof IntValue) return ((IntValue) v).val;
    return bi(v).intValueExact();
  }
  static Value sv(BigInteger b) { return new StringValue("0x" + b.toString(16)); }
  static Value bv(boolean b) { return b ? BoolValue.ValTrue : BoolValue.ValFalse; }

  // ---- modular arithmetic (modulus p given explicitly) ----
  public static Value BMAdd(Value a, Value b, Value p) { return sv(bi(a).add(bi(b)).mod(bi(p))); }
  public static Value BMSub(Value a, Value b, Value p) { return sv(bi(a).subtract(bi(b)).mod(bi(p))); }
  public static Value BMMul(Value a, Value b, Value p) { return sv(bi(a).multiply(bi(b)).mod(bi(p))); }
  public static Value BMPow(Value a, Value e, Value p) { return sv(bi(a).modPow(bi(e), bi(p))); }
  public static Value BMInv(Value a, Value p) {
    BigInteger x = bi(a).mod(bi(p));
    if (x.signum() == 0) return sv(BigInteger.ZERO);   // convention: inverse of 0 is 0 (never relied on)
    return sv(x.modInverse(bi(p)));
  }
  public static Value BMNorm(Value a, Value p) { return sv(bi(a).mod(bi(p))); }

  // ---- naturals (non-modular reading) ----
  public static Value BNOf(Value n) { return sv(bi(n)); }
  public static Value BNAdd(Value a, Value b) { return sv(bi(a).add(bi(b))); }
  public static Value BNSub(Value a, Value b) {      // truncated at 0
    BigInteger r = bi(a).subtract(bi(b)); return sv(r.signum() < 0 ? BigInteger.ZERO : r); }
  public static Value BNMul(Value a, Value b) { return sv(bi(a).multiply(bi(b))); }
  public static Value BNDiv(Value a, Value b) { return sv(bi(a).divide(bi(b))); }
  public static Value BNMod(Value a, Value b) { return sv(bi(a).mod(bi(b))); }
  public static Value BNPow2(Value k) { return sv(BigInteger.ONE.shiftLeft(in(k))); }
  public static Value BNLeq(Value a, Value b) { return bv(bi(a).compareTo(bi(b)) <= 0); }
  public static Value BNLt(Value a, Value b) { return bv(bi(a).compareTo(bi(b)) < 0); }
  public static Value BNEq(Value a, Value b) { return bv(bi(a).equals(bi(b))); }
  public static Value BNFitsInt(Value a) { return bv(bi(a).bitLength() <= 30); }
  public static Value BNToInt(Value a) { return IntValue.gen(bi(a).intValueExact()); }
  public static Value BNBitLen(Value a) { return IntValue.gen(bi(a).bitLength()); }
  public static Value BNIsPow2(Value a) { BigInteger x = bi(a); return bv(x.signum() > 0 && x.bitCount() == 1); }
  // reverse the low nbits bits of a
  public static Value BNBitRev(Value a, Value nbits) {
    BigInteger x = bi(a); int n = in(nbits); BigInteger r = BigInteger.ZERO;
    for (int i = 0; i < n; i++) if (x.testBit(i)) r = r.setBit(n - 1 - i);
    return sv(r);
  }
  // spread the bits of j: bit i of j moves to position i * spacing
  public static Value BNDilute(Value j, Value spacing) {
    BigInteger x = BigInteger.valueOf(in(j)); int sp = in(spacing); BigInteger r = BigInteger.ZERO;
    for (int i = 0; i < x.bitLength(); i++) if (x.testBit(i)) r = r.setBit(i * sp);
    return sv(r);
  }
  public static Value BNLowBits(Value a, Value nbits) {
    return sv(bi(a).mod(BigInteger.ONE.shiftLeft(in(nbits)))); }

  // ---- byte strings (hex, no prefix) ----
  public static Value BHLen(Value h) { return IntValue.gen(str(h).length() / 2); }
  public static Value BHCat(Value a, Value b) { return new StringValue(str(a) + str(b)); }
  // bytes [from, to) 0-based
  public static Value BHSlice(Value h, Value from, Value to) {
    return new StringValue(str(h).substring(2 * in(from), 2 * in(to))); }
  public static Value BHToNat(Value h) { String s = str(h); return sv(s.isEmpty() ? BigInteger.ZERO : new BigInteger(s, 16)); }
  public static Value BHOfNat(Value n, Value nbytes) {
    String s = bi(n).toString(16); int want = 2 * in(nbytes);
    if (s.length() > want) throw new RuntimeException("BHOfNat: does not fit");
    StringBuilder sb = new StringBuilder(); for (int i = s.length(); i < want; i++) sb.append('0');
    return new StringValue(sb + s);
  }
  public static Value BHLeadingZeroBits(Value h) {
    String s = str(h); int n = 0;
    for (int i = 0; i < s.length(); i++) {
      int d = Character.digit(s.charAt(i), 16);
      if (d == 0) { n += 4; continue; }
      n += Integer.numberOfLeadingZeros(d) - 28; break;
    }
    return IntValue.gen(n);
  }
}
