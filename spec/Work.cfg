CONSTANT G_Ranges = TRUE
CONSTANT G_FriRanges = TRUE
SPECIFICATION Spec
INVARIANT WorkBounded
CHECK_DEADLOCK FALSE
