CONSTANT P = 97
CONSTANT Gen = 5
CONSTANT MaxBits = 5
CONSTANT MaxSpacing = 3
INIT Init
NEXT Next
INVARIANT DilutedOK
CHECK_DEADLOCK FALSE
