------------------------------ MODULE MC_Table ------------------------------
(* C05 on the model: one state per (columns, height, friendly count, query set, corruption). *)
EXTENDS TableCommitment, TLC, Json
CONSTANTS MaxHeight, MaxCols, Emit, WideCols    \* WideCols: a few wide rows (more than 16 cells), explored on a reduced catalogue
VARIABLES ncols, height, nvf, qidx, values, auth, root, corrupt
vars == <<ncols, height, nvf, qidx, values, auth, root, corrupt>>

BigCols == 1000000      \* the harness reads a declared count c + k * BigCols as c + 2^(64k)
Cell(r, k) == Atom(<<"cell", r, k>>)
Bad(k) == Atom(<<"bad", k>>)
Rows(h, c) == [j \in 0..(2^h - 1) |-> [k \in 1..c |-> Cell(j, k)]]
RECURSIVE FlatRows(_, _, _)
FlatRows(rows, qs, i) == IF i > Len(qs) THEN <<>> ELSE rows[qs[i]] \o FlatRows(rows, qs, i + 1)

Init ==
  \E c \in (1..MaxCols) \cup WideCols, h \in 0..MaxHeight, n \in 0..(MaxHeight + 3) :
  (c \in WideCols => (h = 1 /\ n \in {0, 2, 3})) /\
  \E Q \in (SUBSET (0..(2^h - 1))) \ {{}} :
    LET qs == SortSet(Q)
        rows == Rows(h, c)
        vals == FlatRows(rows, qs, 1)
        a == TableAuth(rows, qs, h, n)
        N == Len(vals)
    IN
    \E x \in {<<"none", 0, 0>>, <<"addcell", 0, 0>>, <<"root", 0, 0>>, <<"extra", 0, 0>>}
             \cup {<<"cell", i, 0>> : i \in 1..N}                         \* one cell replaced
             \cup {<<"swap", p[1], p[2]>> : p \in {q \in (1..N) \X (1..N) : q[1] < q[2]}}
             \cup {<<"dropcell", i, 0>> : i \in 1..N}
             \cup {<<"auth", i, 0>> : i \in 1..Len(a)}
             \cup {<<"cols", cc, 0>> : cc \in (1..(MaxCols + 1)) \ {c}}    \* declared column count differs
             \cup {<<"colshi", k, 0>> : k \in 1..3} :                        \* declared count c + 2^(64k) (stand-in: c + k * BigCols): same low machine word
      /\ (c \in WideCols =>                                   \* reduced catalogue for wide rows: first / 16th / 17th / last cell
            \/ x[1] \in {"none", "addcell", "root", "extra", "auth"}
            \/ (x[1] \in {"cell", "dropcell"} /\ x[2] \in {1, 16, 17, N})
            \/ (x[1] = "swap" /\ x[2] \in {1, 16} /\ x[3] \in {17, N})
            \/ (x[1] = "cols" /\ x[2] = 1) \/ x[1] = "colshi")
      /\ ncols = IF x[1] = "cols" THEN x[2] ELSE IF x[1] = "colshi" THEN c + x[2] * BigCols ELSE c
      /\ height = h /\ nvf = n /\ qidx = qs /\ corrupt = x
      /\ values = CASE x[1] = "cell" -> [vals EXCEPT ![x[2]] = Bad(x[2])]
                    [] x[1] = "swap" /\ x[2] < x[3] -> [vals EXCEPT ![x[2]] = vals[x[3]], ![x[3]] = vals[x[2]]]
                    [] x[1] = "dropcell" -> SubSeq(vals, 1, x[2] - 1) \o SubSeq(vals, x[2] + 1, N)
                    [] x[1] = "addcell" -> Append(vals, Bad(777))
                    [] OTHER -> vals
      /\ auth = CASE x[1] = "auth" -> [a EXCEPT ![x[2]] = Bad(100 + x[2])]
                  [] x[1] = "extra" -> Append(a, Bad(999))
                  [] OTHER -> a
      /\ root = IF x[1] = "root" THEN Bad(1000) ELSE TableRoot(rows, h, n)
Next == UNCHANGED vars

Result == TableDecommit(ncols, qidx, values, auth, root, height, nvf)
Honest == corrupt[1] \in {"none", "extra"}
Complete == Honest => Result = "ok"
Binding  == ~Honest => Result # "ok"
LengthGuard == (Len(values) # ncols * Len(qidx)) => Result = "length"
EmitReplay == Emit =>
    PrintT(<<"REPLAY", ToJson([ncols |-> ncols, height |-> height, nvf |-> nvf, idx |-> qidx, values |-> values,
                               auth |-> auth, root |-> root, corrupt |-> corrupt, expect |-> Result])>>)
=============================================================================
