------------------------------- MODULE Merkle -------------------------------
(* Merkle trees over symbolic hash terms, as committed by Stone and opened by             *)
(* crates/commitment/src/vector/decommit.rs.                                              *)
(*  - heap indexing: root = 1, children of i are 2i and 2i+1, leaf j of a tree of height  *)
(*    h is node 2^h + j; depth(root) = 0.                                                  *)
(*  - the two children at depth d are hashed with the verifier-friendly hash iff nvf >= d, *)
(*    otherwise with the build's masked Keccak/Blake2s.                                    *)
(*  - witness = siblings of the queried sub-forest, level by level bottom-up, left to right *)
EXTENDS Terms, FiniteSets

NodeHash(x, y, friendly) == IF friendly THEN Poseidon2(x, y) ELSE Masked2(x, y)

RECURSIVE TreeNodeOf(_, _, _, _, _)
\* value of heap node idx at depth d in the tree of the given height whose leaf j is leaf[j]
TreeNodeOf(leaf, idx, d, height, nvf) ==
  IF d = height THEN leaf[idx - 2^height]
  ELSE NodeHash(TreeNodeOf(leaf, 2*idx, d+1, height, nvf), TreeNodeOf(leaf, 2*idx+1, d+1, height, nvf), nvf >= d+1)

RootOf(leaf, height, nvf) == TreeNodeOf(leaf, 1, 0, height, nvf)

RECURSIVE SortSet(_)
SortSet(T) == IF T = {} THEN <<>> ELSE LET m == CHOOSE m \in T : \A y \in T : m <= y IN <<m>> \o SortSet(T \ {m})

RECURSIVE AuthFor(_, _, _, _, _)
\* idxs: sorted sequence of distinct heap indices at depth d; the honest witness from depth d upwards
AuthFor(leaf, idxs, d, h, n) ==
  IF d = 0 THEN <<>>
  ELSE LET S == {idxs[i] : i \in 1..Len(idxs)}
           need == [i \in 1..Len(idxs) |->
                      LET x == idxs[i] IN
                      IF x % 2 = 0 THEN IF (x+1) \in S THEN <<>> ELSE <<TreeNodeOf(leaf, x+1, d, h, n)>>
                      ELSE IF (x-1) \in S THEN <<>> ELSE <<TreeNodeOf(leaf, x-1, d, h, n)>>]
           RECURSIVE Flat(_)
           Flat(i) == IF i > Len(idxs) THEN <<>> ELSE need[i] \o Flat(i+1)
           parents == {x \div 2 : x \in S}
       IN Flat(1) \o AuthFor(leaf, SortSet(parents), d-1, h, n)

\* Honest witness for the sorted distinct leaf positions qs (0-based) of a tree of height h
HonestAuth(leaf, qs, h, n) == AuthFor(leaf, [i \in 1..Len(qs) |-> qs[i] + 2^h], h, h, n)

(* ---- the decommitment algorithm as a function (same steps as the queue machine of      *)
(*      VectorCommitment.tla; MC_Vector checks the two agree)                             *)
\* queue entries: <<heap index, value, depth>>
RECURSIVE RunQueue(_, _, _, _, _)
RunQueue(queue, start, auth, apos, nvf) ==
  IF start > Len(queue) THEN <<"invalid", <<>>, apos>>
  ELSE LET cur == queue[start] IN
    IF cur[1] = 1 THEN <<"root", cur[2], apos>>
    ELSE LET friendly == nvf >= cur[3]
             hasPair == cur[1] % 2 = 0 /\ start + 1 <= Len(queue) /\ queue[start+1][1] = cur[1] + 1
         IN IF hasPair
            THEN RunQueue(Append(queue, <<cur[1] \div 2, NodeHash(cur[2], queue[start+1][2], friendly), cur[3] - 1>>),
                          start + 2, auth, apos, nvf)
            ELSE IF apos > Len(auth) THEN <<"missing", <<>>, apos>>
            ELSE RunQueue(Append(queue, <<cur[1] \div 2,
                                         IF cur[1] % 2 = 0 THEN NodeHash(cur[2], auth[apos], friendly)
                                                           ELSE NodeHash(auth[apos], cur[2], friendly),
                                         cur[3] - 1>>),
                          start + 1, auth, apos + 1, nvf)

\* idx, val: sequences of leaf positions (0-based) and values.  Result "ok" / "mismatch" / "missing" / "invalid"
Decommit(idx, val, auth, root, height, nvf) ==
  LET q == [i \in 1..Len(idx) |-> <<idx[i] + 2^height, val[i], height>>]
      r == RunQueue(q, 1, auth, 1, nvf)
  IN IF r[1] = "root" THEN (IF r[2] = root THEN "ok" ELSE "mismatch") ELSE r[1]
AuthUsed(idx, val, auth, height, nvf) ==
  RunQueue([i \in 1..Len(idx) |-> <<idx[i] + 2^height, val[i], height>>], 1, auth, 1, nvf)[3] - 1
=============================================================================
