CONSTANT Stone6 = TRUE
INIT Init
NEXT Next
INVARIANT TamperEvident
INVARIANT EveryVectorGuarded
INVARIANT Emit
CHECK_DEADLOCK FALSE
