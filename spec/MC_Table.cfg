CONSTANT MaxHeight = 2
CONSTANT MaxCols = 3
CONSTANT Emit = TRUE
INIT Init
NEXT Next
INVARIANT Complete
INVARIANT Binding
INVARIANT LengthGuard
INVARIANT EmitReplay
CHECK_DEADLOCK FALSE
