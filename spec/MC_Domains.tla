---------------------------- MODULE MC_Domains ----------------------------
(* Exhaustive check, at the real field, that the specification's domains satisfy C12 for *)
(* every (t, c) with t + c in 0..192: one initial state per pair.                         *)
EXTENDS Domains, TLC
CONSTANT MaxSum
VARIABLES t, c
Init == /\ t \in 0..MaxSum /\ c \in 0..(MaxSum - t)
Next == UNCHANGED <<t, c>>
OrderOK == DomainsOK(t, c, EvalGen(t, c), TraceGen(t), EvalSize(t, c), TraceSize(t))
\* non-vacuity: the order test rejects a generator of the wrong order
Sanity == t + c >= 1 => ~HasOrderPow2(FMul(EvalGen(t, c), EvalGen(t, c)), t + c)
=============================================================================
