CONSTANT P = 97
CONSTANT Gen = 5
CONSTANT MaxBits = 6
CONSTANT MaxSpacing = 4
INIT Init
NEXT Next
INVARIANT DilutedOK
CHECK_DEADLOCK FALSE
