INIT Init
NEXT Next
POSTCONDITION Accepted
CHECK_DEADLOCK FALSE
