CONSTANT MaxOps = 5
CONSTANT Emit = TRUE
SPECIFICATION Spec
INVARIANT DigestBindsHistory
INVARIANT ChallengeBindsPrefix
INVARIANT ChallengesDistinct
INVARIANT NoRepeat
INVARIANT EmitReplay
PROPERTY Stable
CHECK_DEADLOCK FALSE
