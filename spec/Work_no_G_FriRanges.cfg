CONSTANT G_Ranges = TRUE
CONSTANT G_FriRanges = FALSE
SPECIFICATION Spec
INVARIANT WorkBounded
CHECK_DEADLOCK FALSE
