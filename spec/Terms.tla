------------------------------- MODULE Terms -------------------------------
(* Symbolic values.  Hash functions are free constructors (collision resistance is the   *)
(* standing assumption of every property); all values that can meet in an equality are    *)
(* uniformly tagged tuples, because TLC refuses to compare a string with a tuple.          *)
(* The harness (harness/src/terms.rs) evaluates terms with the real primitives.            *)
EXTENDS Naturals, Sequences

Atom(s)         == <<"atom", s>>             \* an arbitrary field element named s
NatT(n)         == <<"nat", n>>              \* the field element n
Plus1(t)        == <<"plus1", t>>            \* t + 1
Poseidon2(x, y) == <<"p2", x, y>>            \* poseidon_hash(x, y)
PoseidonMany(s) == <<"pmany", s>>            \* poseidon_hash_many(s)
Pedersen(x, y)  == <<"pedersen", x, y>>      \* pedersen_hash(x, y)
Masked2(x, y)   == <<"masked", x, y>>        \* build's masked Keccak/Blake2s of be32(x) || be32(y)
MaskedMany(s)   == <<"maskedmany", s>>       \* build's masked hash of the concatenated be32 cells
Mont(t)         == <<"mont", t>>             \* t * R, R = 2^256 mod p
HiBits(t, k)    == <<"hibits", t, k>>        \* t + 2^k: the same low k bits, different high bits
Seed            == <<"seed">>
=============================================================================
