"""C13: the public-input digest binds every field of the public input."""
import json
import os
import vf
from checks import common


def run(tier, opts):
    ck = vf.Check("C13", tier)
    ck.rule = ("MC_Seed: every ordered pair of public inputs from a small space (main page of 0..2 cells (thorough: every 2-cell page; quick: two transposed 2-cell pages), 0..1 continuous-page headers, dynamic "
               "parameter vector, segment, padding, range-check fields over a 2-atom alphabet; both Stone versions): seed terms are equal iff the "
               "inputs are equal (and the friendly-layer count under Stone 6). Every small input is replayed on the real get_hash (2 instantiations, "
               "value = term, equality partition). On the public inputs of the shipped proofs (one per layout, 7 layouts): every scalar field, every "
               "segment bound, sampled main-page cells (address, value, delete, insert, transpose, swap values, address<->value), page headers, "
               "dynamic parameters and the friendly-layer count are perturbed: all seeds pairwise distinct and equal to a reference evaluation of "
               "SeedTerm. The seed -> first challenges link to Stone's log is checked in C03's traces. non-trivial = pair of distinct inputs")
    ck.assumptions = ["Pedersen and Poseidon collision resistant (free constructors)"]
    tmp = vf.tmpdir("C13")
    cases = []
    for stone6 in (False, True):
        cfg = common.gen_cfg("MC_Seed.cfg", {"Stone6 = FALSE": f"Stone6 = {'TRUE' if stone6 else 'FALSE'}", "Small = TRUE": f"Small = {'TRUE' if tier == 'quick' else 'FALSE'}"},
                             ("s6" if stone6 else "s5") + tier)
        res = vf.tlc("MC_Seed", cfg=cfg, workers=12, timeout=3600, heap="16g")
        ck.add_tlc(res, f"MC_Seed(stone6={stone6})")
        if not ck.require_tlc_ok(res, "MC_Seed"):
            return ck.finish()
        cases += res.replays
    inp = os.path.join(tmp, "terms.ndjson")
    vf.write_ndjson(inp, cases)
    for b in [vf.DEFAULT_BUILD, vf.SECOND_BUILD]:
        binp = vf.build(b)
        outp = os.path.join(tmp, f"out-{b}.ndjson")
        vf.vh(binp, ["pi-seed", inp, outp])
        results = vf.read_ndjson(outp)
        summ = [r for r in results if r.get("summary")][0]
        for r in results:
            if r.get("summary"):
                continue
            key = f"{r['kind']}:{b}:" + (json.dumps(r["case"].get("variant")) + ":" + r["case"].get("layout", "") if r["kind"] == "real" else json.dumps(r["case"]["pi"]))
            ck.violation(key, f"[{b}] " + r["why"], r)
        ck.extra.setdefault("impl_cases", {})[b] = summ["cases"]
    for c in cases:
        ck.case(json.dumps([c["pi"], c["nvf"], c["stone6"]]), True)
    ck.sample({"pi": cases[7]["pi"], "seed_term": cases[7]["seed"]})
    return ck.finish()
