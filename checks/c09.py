"""C09: proof of work accepted exactly when the hash has the required zero bits."""
import os
import vf
from checks import common


def run(tier, opts):
    ck = vf.Check("C09", tier)
    ck.rule = ("MC_Pow: all difficulties 0..128 x hash patterns with exactly k leading zero bits (k 0..256, 3 fills): the threshold comparison "
               "of the code equals 'n leading zero bits'; config range 20..50. Trace_Pow: hooked verify_pow runs on generated (digest, n, nonce) "
               "triples (ground nonces with many zero bits, boundaries, 0 and 2^64-1), Config::validate for every u8, and UnsentCommitment::commit "
               "on real transcripts: TLC rebuilds both preimages from (digest, n, nonce), checks lengths 41/40, the verdict from the logged hash, "
               "and that the nonce is absorbed iff the check passed. non-trivial = verify_pow call whose h2 has >= 1 leading zero bit or n >= 1")
    ck.assumptions = ["Keccak-256 / Blake2s-256 values are taken from sha3 / blake2 crates (independent call in the harness, field hok)"]
    res = vf.tlc("MC_Pow", workers=8, timeout=1200)
    ck.add_tlc(res, "MC_Pow")
    if not ck.require_tlc_ok(res, "MC_Pow"):
        return ck.finish()
    tmp = vf.tmpdir("C09")
    builds = [vf.DEFAULT_BUILD, vf.SECOND_BUILD]
    for b in builds:
        binp = vf.build(b)
        trace = opts.get("replay") or os.path.join(tmp, f"pow-{b}.ndjson")
        if not opts.get("replay"):
            vf.vh(binp, ["pow", trace, 3 if tier == "quick" else 12, 16 if tier == "quick" else 20])
        recs = vf.read_ndjson(trace)
        for r in recs:
            if r["ev"].endswith(".panic"):
                ck.violation(f"panic:{b}:{r['where']}", f"[{b}] proof-of-work code panicked: {r['where']}", r)
        recs2 = [r for r in recs if not r["ev"].endswith(".panic")]
        vf.write_ndjson(trace + ".v", recs2)
        ok = common.validate_trace(ck, "Trace_Pow", trace + ".v", f"[{b}] proof of work", f"trace:{b}")
        if ok and (opts.get("selftest") or tier == "thorough") and b == builds[0]:
            common.selftest_trace(ck, "Trace_Pow", trace + ".v", [("pow", "pre1"), ("pow", "pre2"), ("pow", "h1"), ("pow", "digest"), ("pow.result", "ok"), ("powcfg", "ok"), ("commit.end", "ok"), ("absorb", "msg")])
        n_pow = 0
        for r in recs2:
            if r["ev"] == "pow":
                n_pow += 1
                ck.case(f"{b}:{r['digest']}:{r['n_bits']}:{r['nonce']}", r["n_bits"] >= 1)
                if n_pow in (5, 50):
                    ck.sample({k: r[k] for k in ("digest", "n_bits", "nonce", "h2")})
        ck.extra.setdefault("verify_pow_calls", {})[b] = n_pow
        if opts.get("replay"):
            break
    return ck.finish()
