"""C07: FRI rejects inconsistent layers and functions above the degree bound."""
import json
import os
import vf
from checks import common


def run(tier, opts):
    ck = vf.Check("C07", tier)
    ck.rule = ("MC_Fri (F_257): on every honest instance of the catalogue, every single-position corruption (queried input value, sibling leaf, "
               "authentication node, inner commitment, evaluation point, last-layer coefficient, last-layer length +-1, missing leaf) is rejected; "
               "committed-value corruptions are caught by the layer decommitment itself. Degree clause: functions of degree = bound honestly folded, "
               "all singleton query sets + pairs/triples: acceptance of a set = acceptance of each member, and some index rejects. Every instance is "
               "replayed at the real field on fri_commit+fri_verify; hooked traces validated by Trace_Fri (an accepting result needs every layer "
               "decommitted successfully); high-degree functions with 1..24 random queries at the real field must never be accepted. "
               "non-trivial = corrupted or high-degree instance")
    ck.assumptions = ["hash collision resistance", "a changed evaluation point is only detectable on polynomials whose folded components do not all vanish (zero polynomial excluded)",
                      "probability of an accidental acceptance at the real field (~deg/p per query) is treated as 0"]
    tmp = vf.tmpdir("C07")
    quick = tier == "quick"
    cfg = common.gen_cfg("MC_Fri.cfg", {"Configs <- ConfigsQuick": "Configs <- " + ("ConfigsQuick" if quick else "ConfigsThorough")}, "c07_" + tier)
    res = vf.tlc("MC_Fri", cfg=cfg, workers=12, timeout=7200, heap="24g")
    ck.add_tlc(res, "MC_Fri")
    if not ck.require_tlc_ok(res, "MC_Fri"):
        return ck.finish()
    ck.require_coverage(res, ["Next"], "MC_Fri")
    allcases = res.replays
    # degree clause on the model's verdicts
    high = [c for c in allcases if c["kind"] == "high"]
    by_cfg = {}
    for c in high:
        by_cfg.setdefault(json.dumps([c["logn"], c["steps"], c["loglast"]]), []).append(c)
    rho = {}
    for k, cs in by_cfg.items():
        single = {c["queries"][0]: c["model"] == "accept" for c in cs if len(c["queries"]) == 1}
        n = len(single)
        acc = sum(1 for v in single.values() if v)
        rho[k] = [acc, n]
        if n and acc == n:
            ck.violation("model:degree:" + k, "model: a function of degree = bound is accepted at every query index", {"config": k})
        for c in cs:
            if len(c["queries"]) > 1:
                each = all(single.get(q, False) for q in c["queries"])
                if (c["model"] == "accept") != each:
                    ck.violation("model:perquery:" + k, "model: acceptance of a query set is not the conjunction of its members", c)
    ck.extra["model_accepting_fraction_degree_eq_bound"] = rho
    cases = [c for c in allcases if not (c["kind"] != "high" and c["corrupt"][0] in ("none", "extraleaf"))]
    if opts.get("replay"):
        cases = [json.load(open(opts["replay"]))["case"]]
    inp = os.path.join(tmp, "cases.ndjson")
    vf.write_ndjson(inp, cases)
    for b in ([vf.DEFAULT_BUILD] if quick else [vf.DEFAULT_BUILD, vf.SECOND_BUILD]):
        binp = vf.build(b)
        outp = os.path.join(tmp, f"out-{b}.ndjson")
        trace = os.path.join(tmp, f"trace-{b}.ndjson")
        vf.vh(binp, ["fri", inp, outp, trace, max(1, len(cases) // (400 if quick else 4000))])
        results = vf.read_ndjson(outp)
        summ = [r for r in results if r.get("summary")][0]
        for r in results:
            if r.get("summary") or r.get("kind") != "verdict":
                continue
            c = r["case"]
            ck.violation(f"replay:{b}:" + json.dumps([c["steps"], c["loglast"], c["kind"], c["corrupt"]]), f"[{b}] corrupted / high-degree FRI instance: " + r["why"], r)
        ck.extra.setdefault("replayed", {})[b] = summ
        common.validate_trace(ck, "Trace_Fri", trace, f"[{b}] fri_verify on corrupted instances", f"trace:{b}",
                              keyfn=lambda case, bad: f"trace:{b}:{bad.get('ev')}:{case[0].get('corrupt', [''])[0]}")
        outh = os.path.join(tmp, f"high-{b}.ndjson")
        vf.vh(binp, ["fri-highdeg", outh, 12 if quick else 60, 6 if quick else 30], timeout=7200)
        hh = vf.read_ndjson(outh)
        for r in hh:
            if r.get("kind") == "verdict":
                ck.violation(f"highdeg:{b}:" + json.dumps([r["case"]["steps"], r["case"]["deg"], r["case"]["bound"], len(r["case"]["queries"])]), f"[{b}] " + r["why"], r)
        ck.extra.setdefault("real_field_high_degree_trials", {})[b] = [r for r in hh if r.get("summary")][0]
    for c in cases:
        ck.case(json.dumps([c["logn"], c["steps"], c["loglast"], c["kind"], c["queries"], c["corrupt"]]), True)
    for c in [c for c in cases if c["corrupt"][0] == "auth"][:1] + [c for c in cases if c["kind"] == "high"][:1] + cases[:1]:
        ck.sample({k: c[k] for k in ("logn", "steps", "loglast", "kind", "queries", "corrupt", "model", "expect")})
    return ck.finish()
