"""C04: Merkle vector decommitment is complete and binding for all shapes."""
import json
import os
import vf
from checks import common

QUICK_BUILDS = [vf.DEFAULT_BUILD, "blake2s_160_lsb-stone6"]      # C05 quick covers the two 248-bit variants
THOROUGH_BUILDS = ["keccak_160_lsb-stone5", "keccak_248_lsb-stone5", "blake2s_160_lsb-stone6", "blake2s_248_lsb-stone6"]


def run(tier, opts):
    ck = vf.Check("C04", tier)
    maxh, maxq = (3, 8) if tier == "quick" else (4, 4)
    ck.rule = (f"TLC: every height 0..{maxh}, friendly-layer count 0..{maxh+2}, every non-empty set of <= {maxq} distinct leaf positions, and each "
               "single corruption (query value, query index -> any other in-range index, needed sibling replaced / dropped / swapped with the next, "
               "root, surplus trailing node, opening under another friendly boundary); invariants Complete, Binding, ExactWitness, machine = "
               "functional definition. Every finished instance is replayed on the real vector_commitment_decommit (2 random instantiations of the "
               "leaf atoms, per hash build) and the hooked events are validated by Trace_Vector. non-trivial = height >= 1")
    ck.assumptions = ["Poseidon and the masked Keccak/Blake2s hashes are collision resistant (free constructors in the model)",
                      "harness hash primitives (sha3, blake2, starknet-crypto) are the reference for the value of a hash"]
    tmp = vf.tmpdir("C04")
    if opts.get("replay"):
        cases = [json.load(open(opts["replay"]))["case"]]
    else:
        cfg = common.gen_cfg("MC_Vector.cfg", {"MaxHeight = 3": f"MaxHeight = {maxh}", "MaxQ = 8": f"MaxQ = {maxq}"}, tier)
        res = vf.tlc("MC_Vector", cfg=cfg, workers=8, timeout=6000, heap="24g")
        ck.add_tlc(res, "MC_Vector")
        if not ck.require_tlc_ok(res, "MC_Vector"):
            return ck.finish()
        ck.require_coverage(res, ["Next"], "MC_Vector")
        cases = res.replays
        if not cases:
            raise vf.ToolError("MC_Vector emitted no instances")
    inp = os.path.join(tmp, "cases.ndjson")
    vf.write_ndjson(inp, cases)
    builds = QUICK_BUILDS if tier == "quick" else THOROUGH_BUILDS
    total = 0
    for b in builds:
        binp = vf.build(b)
        outp = os.path.join(tmp, f"out-{b}.ndjson")
        trace = os.path.join(tmp, f"trace-{b}.ndjson")
        every = max(1, len(cases) // (4000 if tier == "quick" else 20000))
        vf.vh(binp, ["vector", inp, outp, trace, every])
        summ = common.collect_replay_results(ck, outp, f"[{b}] real vector_commitment_decommit disagrees with the spec",
                                             lambda r: f"replay:{b}:" + json.dumps([r["case"]["height"], r["case"]["nvf"], r["case"]["idx"], r["case"]["corrupt"]]))
        total += summ["cases"]
        ok = common.validate_trace(ck, "Trace_Vector", trace, f"[{b}] vector decommitment", f"trace:{b}")
        if ok and (opts.get("selftest") or tier == "thorough") and b == builds[0]:
            common.selftest_trace(ck, "Trace_Vector", trace, [("vc.node", "out"), ("vc.node", "l"), ("vc.node", "friendly"), ("vc.node", "auth_pos"), ("vc.end", "computed"), ("vc.end", "ok"), ("vc.result", "ok"), ("vc.node", None), ("vc.begin", "root")])
    for c in cases:
        ck.case(json.dumps([c["height"], c["nvf"], c["idx"], c["corrupt"]]), c["height"] >= 1)
    ck.extra["behaviours_replayed_on_impl"] = total
    ck.extra["builds"] = builds
    for c in cases[:1] + cases[len(cases) // 3: len(cases) // 3 + 2]:
        ck.sample({k: c[k] for k in ("height", "nvf", "idx", "corrupt", "expect")})
    ck.exhaustive = True
    return ck.finish()
