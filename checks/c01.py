"""C01: no proof is accepted for a trace that violates the AIR."""
import json
import os
import vf
from checks import common

GUARDS = ["G_OodsLen", "G_FriTie", "G_Ranges", "G_LayerDecommit"]


def run(tier, opts):
    ck = vf.Check("C01", tier)
    quick = tier == "quick"
    per = 3 if quick else 24
    ck.rule = ("Stark.tla: 7 prover strategies (honest; invalid trace with honest / lying-at-composition / lying-at-mask out-of-domain values; extra "
               "out-of-domain entries carrying a decoupled claim; FRI committed for the zero function with adaptively chosen first-layer leaves; valid "
               "trace with non-fold inner layers) x 8 configuration declarations (blow-up exponent 0 / modulo the field, 0 or 49 queries, inflated FRI "
               "input size, weak proof of work, short last layer) x luck events: Sound, Hypotheses, HonestAccepted hold with all four guards and each "
               "guard's removal yields a counterexample (non-vacuity). Every recipe is instantiated "
               f"{per}x by the harness's toy-AIR prover on random configurations (trace 2^2..2^6, 2-4 FRI layers, 1-6 queries, every friendly-layer "
               "boundary) and run on the real StarkProof::verify; verdict must equal the model's; every hooked trace must be a behaviour of "
               "Trace_Stark (strict Fiat-Shamir order, every absorbed message = proof field, OODS pair = opened pair, ConfigOK at 'config ok', "
               "acceptance only after all decommitments / FRI / PoW). non-trivial = recipe whose prover has no satisfying trace")
    ck.assumptions = ["STARK soundness theorem itself (probability bound) is not re-proved: the model checks its structural hypotheses and marks luck events",
                      "hash collision resistance", "toy AIR exercises the generic verifier code; the seven real layouts are bound through C03/C16"]
    tmp = vf.tmpdir("C01")
    res = vf.tlc("Stark", workers=4, timeout=1200)
    ck.add_tlc(res, "Stark(all guards)")
    if not ck.require_tlc_ok(res, "Stark"):
        return ck.finish()
    recipes = res.replays
    # non-vacuity: each guard is necessary
    needed = {}
    for g in GUARDS:
        r = vf.tlc("Stark", cfg=f"Stark_no_{g}.cfg", workers=2, timeout=1200)
        vf.tlc_must_run(r, f"Stark_no_{g}")
        ck.add_tlc(r, f"Stark(without {g})")
        needed[g] = r.violated
        if not r.violated:
            raise vf.ToolError(f"vacuous model: removing guard {g} violates nothing")
    ck.extra["guard_removal_counterexamples"] = needed
    if opts.get("replay"):
        rp = json.load(open(opts["replay"]))
        recipes = [rp["case"]["recipe"]]
    inp = os.path.join(tmp, "recipes.ndjson")
    vf.write_ndjson(inp, recipes)
    builds = [vf.DEFAULT_BUILD] if quick else [vf.DEFAULT_BUILD, vf.SECOND_BUILD]
    for b in builds:
        binp = vf.build(b)
        outp = os.path.join(tmp, f"out-{b}.ndjson")
        trace = os.path.join(tmp, f"trace-{b}.ndjson")
        vf.vh(binp, ["stark-replay", inp, outp, trace, per, 5 if quick else 6], timeout=7200)
        results = vf.read_ndjson(outp)
        summ = [r for r in results if r.get("summary")][0]
        for r in results:
            if r.get("summary"):
                continue
            rc = r["case"]["recipe"]
            ck.violation(f"replay:{b}:{rc['strategy']}:{rc['cfgdev']}",
                         f"[{b}] strategy {rc['strategy']} / declaration {rc['cfgdev']}: " + r["why"], r)
        ck.extra.setdefault("proofs_verified", {})[b] = summ["cases"]
        ok = common.validate_trace(ck, "Trace_Stark", trace, f"[{b}] whole-verifier trace", f"trace:{b}", timeout=3600,
                                   keyfn=lambda case, bad: f"trace:{b}:{bad.get('ev')}:{case[0]['case']['recipe']['strategy']}:{case[0]['case']['recipe']['cfgdev']}")
        if ok and (opts.get("selftest") or tier == "thorough") and b == vf.DEFAULT_BUILD:
            common.selftest_trace(ck, "Trace_Stark", trace, [("absorb", "msg"), ("absorb", "before"), ("squeeze", "counter"), ("oods", "claimed"), ("oods", "point"), ("queries", "out"), ("points", "pts"),
                                                             ("pow", "pre1"), ("st.seed", "digest"), ("proof", "c_comp"), ("proof", "nonce"), ("st.commit_ok", None), ("absorb", None), ("tc.begin", "values")])
    for r in recipes:
        ck.case(json.dumps([r["strategy"], r["cfgdev"]]), not r["trace_ok"])
    for r in [x for x in recipes if x["cfgdev"] == "none"][:4]:
        ck.sample(r)
    return ck.finish()
