"""C06: FRI accepts every polynomial below the bound; folding is polynomial folding."""
import json
import os
import vf
from checks import common


def run(tier, opts):
    ck = vf.Check("C06", tier)
    ck.rule = ("MC_FriFold (F_97; thorough also F_193): butterfly of formula.rs = interpolation formula = 2^k*b^j*y^m for every monomial up to degree "
               "2^(k+1)+1, k=1..4, coset starts and 17 challenges (decides all challenges: degree < 17 in b). MC_Fri (F_257): the verifier machine "
               "accepts every honest instance (catalogue of configurations x {generic, top monomial, zero} x all singleton queries, pairs, triples, a "
               "full coset; surplus trailing leaf tolerated). Every instance is replayed at the real field on fri_commit+fri_verify with a fresh random "
               "polynomial; plus random configurations beyond the model (2..15 layers, steps 1..4, domains to 2^12/2^16); the hooked traces are validated "
               "by Trace_Fri (fold = interpolation formula at the real field, coset assembly, x_inv chain, last-layer Horner, group constants). "
               "non-trivial = instance with >= 2 layers and a non-zero polynomial")
    ck.assumptions = ["hash collision resistance (layer decommitments are delegated to C04/C05's machine)",
                      "small-field exhaustiveness transfers to the real field through the same TLA+ definitions evaluated on traces (bridge B4)"]
    tmp = vf.tmpdir("C06")
    quick = tier == "quick"
    # 1. folding identity
    cfg = common.gen_cfg("MC_FriFold.cfg", {"XMax = 96": f"XMax = {12 if quick else 96}"}, tier)
    res = vf.tlc("MC_FriFold", cfg=cfg, workers=12, timeout=7200)
    ck.add_tlc(res, "MC_FriFold(F_97)")
    if not ck.require_tlc_ok(res, "MC_FriFold"):
        return ck.finish()
    if not quick:
        cfg = common.gen_cfg("MC_FriFold.cfg", {"P = 97": "P = 193", "XMax = 96": "XMax = 48"}, tier + "_193")
        res = vf.tlc("MC_FriFold", cfg=cfg, workers=12, timeout=7200)
        ck.add_tlc(res, "MC_FriFold(F_193)")
        if not ck.require_tlc_ok(res, "MC_FriFold(F_193)"):
            return ck.finish()
    # 2. layer machine, honest instances
    cfg = common.gen_cfg("MC_Fri.cfg", {"Configs <- ConfigsQuick": "Configs <- " + ("ConfigsQuick" if quick else "ConfigsThorough"),
                                       'Kinds = {"generic", "top", "zero", "high"}': 'Kinds = {"generic", "top", "zero"}'}, "c06_" + tier)
    res = vf.tlc("MC_Fri", cfg=cfg, workers=12, timeout=7200, heap="24g")
    ck.add_tlc(res, "MC_Fri")
    if not ck.require_tlc_ok(res, "MC_Fri"):
        return ck.finish()
    ck.require_coverage(res, ["Next"], "MC_Fri")
    cases = [c for c in res.replays if c["corrupt"][0] in ("none", "extraleaf")]
    if opts.get("replay"):
        cases = [json.load(open(opts["replay"]))["case"]]
    inp = os.path.join(tmp, "cases.ndjson")
    vf.write_ndjson(inp, cases)
    for b in ([vf.DEFAULT_BUILD] if quick else [vf.DEFAULT_BUILD, vf.SECOND_BUILD]):
        binp = vf.build(b)
        outp = os.path.join(tmp, f"out-{b}.ndjson")
        trace = os.path.join(tmp, f"trace-{b}.ndjson")
        vf.vh(binp, ["fri", inp, outp, trace, max(1, len(cases) // (150 if quick else 1500))])
        results = vf.read_ndjson(outp)
        for r in results:
            if r.get("summary") or r.get("kind") != "verdict":
                continue
            c = r["case"]
            ck.violation(f"replay:{b}:" + json.dumps([c["steps"], c["loglast"], c["kind"], c["queries"], c["corrupt"]]), f"[{b}] honest FRI instance: " + r["why"], r)
        ok = common.validate_trace(ck, "Trace_Fri", trace, f"[{b}] fri_verify on honest instances", f"trace:{b}",
                                   keyfn=lambda case, bad: f"trace:{b}:{bad.get('ev')}")
        if ok and (opts.get("selftest") or tier == "thorough") and b == vf.DEFAULT_BUILD:
            common.selftest_trace(ck, "Trace_Fri", trace, [("fri.fold", "out"), ("fri.fold", "next_x_inv"), ("fri.gather", "x_inv"), ("fri.gather", "elems"), ("fri.first", "x_inv"), ("fri.begin", "group"),
                                                           ("fri.last", "eval"), ("fri.layer", "eval_point"), ("fri.result", "ok"), ("fri.fold", None), ("tc.begin", None)])
        # beyond the model's bounds
        outr = os.path.join(tmp, f"rand-{b}.ndjson")
        tracer = os.path.join(tmp, f"randtrace-{b}.ndjson")
        vf.vh(binp, ["fri-random", outr, tracer, 150 if quick else 1500, 12 if quick else 16, 10 if quick else 30], timeout=7200)
        rr = vf.read_ndjson(outr)
        for r in rr:
            if r.get("kind") == "verdict":
                ck.violation(f"random:{b}:" + json.dumps(r["case"]), f"[{b}] " + r["why"], r)
            if r.get("sample"):
                ck.sample(r["sample"])
        ck.extra.setdefault("random_instances", {})[b] = [r for r in rr if r.get("summary")][0]["cases"]
        common.validate_trace(ck, "Trace_Fri", tracer, f"[{b}] fri_verify on random honest instances", f"randtrace:{b}",
                              keyfn=lambda case, bad: f"randtrace:{b}:{bad.get('ev')}")
    for c in cases:
        ck.case(json.dumps([c["logn"], c["steps"], c["loglast"], c["kind"], c["queries"], c["corrupt"]]), c["kind"] != "zero")
    for c in cases[:2]:
        ck.sample({k: c[k] for k in ("logn", "steps", "loglast", "kind", "queries", "corrupt", "expect")})
    return ck.finish()
