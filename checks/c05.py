"""C05: table decommitment binds every cell of every queried row."""
import json
import os
import vf
from checks import common

QUICK_BUILDS = ["keccak_248_lsb-stone5", vf.SECOND_BUILD]          # C04 quick covers the two 160-bit variants
THOROUGH_BUILDS = ["keccak_160_lsb-stone5", "keccak_248_lsb-stone5", "blake2s_160_lsb-stone6", "blake2s_248_lsb-stone6"]


def run(tier, opts):
    ck = vf.Check("C05", tier)
    maxh, maxc = (2, 3) if tier == "quick" else (3, 4)
    ck.rule = (f"TLC: columns 1..{maxc}, heights 0..{maxh}, friendly counts 0..{maxh+3}, every non-empty query set, and each single corruption "
               "(cell replaced, two cells exchanged (within/across rows), cell dropped, cell appended, declared column count changed, "
               "authentication node, root, surplus trailing node); invariants Complete, Binding, LengthGuard. Each instance replayed on the real "
               "table_decommit (2 instantiations, per hash build); hooked events validated by Trace_Table (Montgomery products recomputed by "
               "TLC at the real field, row-hash rule, linkage to the vector decommitment). non-trivial = at least 2 columns or height >= 1")
    ck.assumptions = ["hashes collision resistant (free constructors)", "multiplication by R = 2^256 mod p is injective"]
    tmp = vf.tmpdir("C05")
    if opts.get("replay"):
        cases = [json.load(open(opts["replay"]))["case"]]
    else:
        cfg = common.gen_cfg("MC_Table.cfg", {"MaxHeight = 2": f"MaxHeight = {maxh}", "MaxCols = 3": f"MaxCols = {maxc}", "WideCols = {17}": "WideCols = {17}" if tier == "quick" else "WideCols = {16, 17, 33}"}, tier)
        res = vf.tlc("MC_Table", cfg=cfg, workers=8, timeout=6000, heap="24g")
        ck.add_tlc(res, "MC_Table")
        if not ck.require_tlc_ok(res, "MC_Table"):
            return ck.finish()
        cases = res.replays
        if not cases:
            raise vf.ToolError("MC_Table emitted no instances")
    inp = os.path.join(tmp, "cases.ndjson")
    vf.write_ndjson(inp, cases)
    builds = QUICK_BUILDS if tier == "quick" else THOROUGH_BUILDS
    total = 0
    for b in builds:
        binp = vf.build(b)
        outp = os.path.join(tmp, f"out-{b}.ndjson")
        trace = os.path.join(tmp, f"trace-{b}.ndjson")
        every = max(1, len(cases) // (3000 if tier == "quick" else 15000))
        vf.vh(binp, ["table", inp, outp, trace, every])
        summ = common.collect_replay_results(ck, outp, f"[{b}] real table_decommit disagrees with the spec",
                                             lambda r: f"replay:{b}:" + json.dumps([r["case"]["ncols"], r["case"]["height"], r["case"]["nvf"], r["case"]["idx"], r["case"]["corrupt"]]))
        total += summ["cases"]
        ok = common.validate_trace(ck, "Trace_Table", trace, f"[{b}] table decommitment", f"trace:{b}")
        if ok and (opts.get("selftest") or tier == "thorough") and b == builds[0]:
            common.selftest_trace(ck, "Trace_Table", trace, [("tc.rows", "mont"), ("tc.rows", "hash"), ("tc.rows", "idx"), ("tc.begin", "bottom_friendly"), ("tc.result", "ok"), ("vc.begin", "val"), ("tc.rows", None)])
    for c in cases:
        ck.case(json.dumps([c["ncols"], c["height"], c["nvf"], c["idx"], c["corrupt"]]), c["ncols"] >= 2 or c["height"] >= 1)
    ck.extra["behaviours_replayed_on_impl"] = total
    ck.extra["builds"] = builds
    for c in cases[:1] + cases[len(cases) // 2: len(cases) // 2 + 2]:
        ck.sample({k: c[k] for k in ("ncols", "height", "nvf", "idx", "corrupt", "expect")})
    ck.exhaustive = True
    return ck.finish()
