"""C19: parser and CLI conversion hand the verifier exactly what the file says."""
import json
import os
import vf
from checks import common


def run(tier, opts):
    ck = vf.Check("C19", tier)
    quick = tier == "quick"
    ck.rule = ("ProofFile.tla: every field of the proof is the concatenation, in stream order, of the values of the annotation lines of its class. "
               "MC_ProofFile enumerates every ordering of a pool of decommitment lines (leaves, Data and Hash authentication nodes interleaved, FRI "
               "layer lines) after a commit-phase prefix, and the prefix with each line dropped / duplicated; each stream is rendered into a proof "
               "file and parsed by the real parser: every extracted field must equal the model's. On the 25 shipped files and "
               f"{2 if quick else 8} seeded instances of 36 edit kinds per file (value changes per line class, reordering, removal, duplication, unknown / "
               "missing segment, bad hex in memory / line / list, difficulty 255/256/300, nonce 0 / 2^64-1 / 2^64, empty or oversized step list, step "
               "count not a power of two / overflowing, bad last-layer bound, cell on page 1, dynamic parameter changed / removed, unknown layout) the "
               "real parse + CLI conversion is compared field by field with an independent reference reading of the file: equal proof, or error when the "
               "file is malformed or not representable; never a crash. non-trivial = every stream / (file, edit) pair")
    ck.assumptions = ["the reference reader (harness/src/cmd_parser.rs: ref_convert) implements ProofFile.tla's Parse and the property's narrowing rules",
                      "the conversion accepted by C03 (honest files verify) is the same one checked here"]
    tmp = vf.tmpdir("C19")
    cfg = common.gen_cfg("MC_ProofFile.cfg", {"PoolSize = 7": f"PoolSize = {7 if quick else 8}"}, tier)
    res = vf.tlc("MC_ProofFile", cfg=cfg, workers=8, timeout=7200, heap="16g")
    ck.add_tlc(res, "MC_ProofFile")
    if not ck.require_tlc_ok(res, "MC_ProofFile"):
        return ck.finish()
    streams = res.replays
    # files with 12 FRI layers: decommitment lines of layers 1, 2, 10, 11 interleaved in every order
    cfgl = common.gen_cfg("MC_ProofFile.cfg", {"NInner = 1": "NInner = 11"}, "layers")
    resl = vf.tlc("MC_ProofFile", cfg=cfgl, workers=8, timeout=7200, heap="16g")
    ck.add_tlc(resl, "MC_ProofFile(12 FRI layers)")
    if not ck.require_tlc_ok(resl, "MC_ProofFile(12 FRI layers)"):
        return ck.finish()
    streams = streams + (resl.replays if not quick else resl.replays[::6])
    if opts.get("replay"):
        rp = json.load(open(opts["replay"]))
        if "case" in rp:
            streams = [rp["case"]]
    inp = os.path.join(tmp, "streams.ndjson")
    vf.write_ndjson(inp, streams)
    binp = vf.build()
    outp = os.path.join(tmp, "streams-out.ndjson")
    vf.vh(binp, ["parser-streams", inp, outp], timeout=7200)
    for r in vf.read_ndjson(outp):
        if r.get("summary"):
            ck.extra["streams_parsed"] = r["cases"]
            continue
        # key: which field / failure, not the particular ordering
        field = r["why"].split(":")[0]
        ck.violation(f"stream:{field}:{r['case']['edit'][0]}", "real parser on a generated annotation stream: " + r["why"], r)
    outf = os.path.join(tmp, "files-out.ndjson")
    vf.vh(binp, ["parser-files", outf, 2 if quick else 8], timeout=7200)
    for r in vf.read_ndjson(outf):
        if r.get("summary"):
            ck.extra["file_edits_compared"] = r["cases"]
            continue
        if r.get("first"):
            ck.violation("file:" + r["key"], f"{r['edit']} on {os.path.basename(os.path.dirname(r['file']))}/{os.path.basename(r['file'])}: {r['why']}", r)
    for s in streams:
        ck.case(json.dumps(s["stream"]) + json.dumps(s["edit"]), True)
    ck.evaluations += ck.extra.get("file_edits_compared", 0)
    for i in range(ck.extra.get("file_edits_compared", 0)):
        ck.nontrivial.add(f"file-edit-{i}")
    ck.sample({"stream_tail": streams[3]["stream"][-7:], "expect_t0_auth": streams[3]["expect"]["t0_auth"]})
    return ck.finish()
