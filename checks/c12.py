"""C12: evaluation / trace domain generators have exactly the right order (complete enumeration)."""
import os
import vf
from checks import common


def run(tier, opts):
    ck = vf.Check("C12", tier)
    ck.rule = ("one case per (log_trace_domain_size, log_n_cosets) with sum in 0..192; MC_Domains checks the spec's "
               "definition at the real field for all 18721 pairs; Trace_Domains re-derives every field of the real "
               "StarkDomains::new result and checks exact orders on the returned generators; all pairs non-trivial")
    ck.assumptions = ["BigField.class (java.math.BigInteger) computes modular arithmetic correctly (cross-checked by MC_BigFieldCheck)"]
    # 1. model level
    res = vf.tlc("MC_Domains", workers=8, timeout=900)
    ck.add_tlc(res, "MC_Domains")
    ck.require_tlc_ok(res, "MC_Domains")
    # 2. implementation: record all pairs and validate the trace
    binp = vf.build()
    tmp = vf.tmpdir("C12")
    trace = opts.get("replay") or os.path.join(tmp, "domains.ndjson")
    if not opts.get("replay"):
        vf.vh(binp, ["domains", 192, trace])
    recs = vf.read_ndjson(trace)
    panics = [r for r in recs if r["ev"] != "domains"]
    for r in panics:
        ck.violation(f"panic:t={r['t']},c={r['c']}", "StarkDomains::new panicked: " + r["where"], r)
    good = [r for r in recs if r["ev"] == "domains"]
    vf.write_ndjson(trace + ".ok", good)
    common.validate_trace(ck, "Trace_Domains", trace + ".ok", "StarkDomains::new", "trace",
                          keyfn=lambda case, bad: f"trace:t={bad.get('t')},c={bad.get('c')}")
    for r in good:
        ck.case(f"{r['t']},{r['c']}")
    for r in good[:2] + good[-1:]:
        ck.sample(r)
    ck.exhaustive = len(good) == 18721 and not ck.violations
    return ck.finish()
