"""C12: evaluation / trace domain generators have exactly the right order (complete enumeration)."""
import os
import vf


def run(tier, opts):
    ck = vf.Check("C12", tier)
    ck.rule = ("one case per (log_trace_domain_size, log_n_cosets) with sum in 0..192; MC_Domains checks the spec's "
               "definition at the real field for all 18721 pairs; Trace_Domains re-derives every field of the real "
               "StarkDomains::new result and checks exact orders on the returned generators; all pairs non-trivial")
    ck.assumptions = ["BigField.class (java.math.BigInteger) computes modular arithmetic correctly (cross-checked by MC_BigFieldCheck)"]
    # 1. model level
    res = vf.tlc("MC_Domains", workers=8, timeout=900)
    ck.add_tlc(res, "MC_Domains")
    ck.require_tlc_ok(res, "MC_Domains")
    # 2. implementation: record all pairs and validate the trace
    binp = vf.build()
    tmp = vf.tmpdir("C12")
    trace = opts.get("replay") or os.path.join(tmp, "domains.ndjson")
    if not opts.get("replay"):
        vf.vh(binp, ["domains", 192, trace])
    recs = vf.read_ndjson(trace)
    panics = [r for r in recs if r["ev"] != "domains"]
    for r in panics:
        ck.violation(f"panic:t={r['t']},c={r['c']}", "StarkDomains::new panicked: " + r["where"], r)
    good = [r for r in recs if r["ev"] == "domains"]
    vf.write_ndjson(trace + ".ok", good)
    res = vf.tlc("Trace_Domains", env={"TRACE": trace + ".ok"}, workers=1, timeout=900, dfs=True, coverage=False)
    ck.add_tlc(res, "Trace_Domains")
    vf.tlc_must_run(res, "Trace_Domains")
    if res.violated:
        # first unmatched record
        bad = None
        for line in res.prints:
            if "TRACE-REJECTED" in line:
                bad = line
        idx = res.distinct - 1 if res.distinct else 0
        rec = good[idx] if idx < len(good) else None
        p = ck.replay_file("domains_trace.ndjson", open(trace + ".ok").read())
        ck.violation(f"trace:t={rec and rec['t']},c={rec and rec['c']}", "StarkDomains::new result is not the spec's domain", {"record": rec, "tlc": bad, "trace": p})
    else:
        ck.traces += 1
    for r in good:
        ck.case(f"{r['t']},{r['c']}")
    for r in good[:2] + good[-1:]:
        ck.sample(r)
    ck.exhaustive = len(good) == 18721 and not ck.violations
    return ck.finish()
