"""C03: honest Stone proofs verify only under the matching build, with the right hashes."""
import json
import os
import vf
from checks import common


def run(tier, opts):
    ck = vf.Check("C03", tier)
    quick = tier == "quick"
    builds = [vf.DEFAULT_BUILD, vf.SECOND_BUILD] if quick else vf.ALL_BUILDS
    ck.rule = ("Builds.tla enumerates every (build, proof kind) pair and states which build accepts (same layout, same Stone version, same hash "
               "family, and same commitment hash when a masked Merkle layer exists). For each harness build (all 7 layouts compiled in; "
               f"{len(builds)} hash/Stone builds in this tier) each of the 25 shipped proofs + the in-tree fixture is verified as each of the 7 layouts: "
               "verdict = model; accepted proofs return the Pedersen chains of the program / output cells computed from the file's public memory by "
               "an independent reader; verdict and hashes unchanged by a serde round trip; the hooked trace of every same-layout run is validated by "
               "Trace_Stark including equality with Stone's own logged challenges and query indices. non-trivial = accepting pair or same-layout pair")
    ck.assumptions = ["the 25 shipped files are honest Stone outputs", "hash primitives as provided by sha3/blake2/starknet-crypto"]
    res = vf.tlc("Builds", workers=4, timeout=1200)
    ck.add_tlc(res, "Builds")
    if not ck.require_tlc_ok(res, "Builds"):
        return ck.finish()
    model = {}
    for r in res.replays:
        model[(r["b_layout"], r["b_hash"], r["b_stone"], r["f_layout"], r["f_hash"], r["f_stone"], r["masked"])] = r["expect"]
    tmp = vf.tmpdir("C03")
    accepted_total = 0
    for b in builds:
        binp = vf.build(b)
        bh, bs = b.split("-")
        outp = os.path.join(tmp, f"out-{b}.ndjson")
        trace = os.path.join(tmp, f"trace-{b}.ndjson")
        vf.vh(binp, ["real-matrix", outp, trace], timeout=3600)
        recs = vf.read_ndjson(outp)
        if len(recs) < 26 * 7:
            raise vf.ToolError(f"real-matrix produced {len(recs)} records")
        for r in recs:
            masked = r["nvf"] <= r["log_eval"] if r["file"] != "fixture" else False
            key = (r["as_layout"], bh, bs, r["file_layout"], r["file_hash"], r["file_stone"], masked)
            exp = model[key]
            name = os.path.basename(os.path.dirname(r["file"])) + "/" + os.path.basename(r["file"])
            ident = f"{b}:{name}:as={r['as_layout']}"
            if r["verdict"] == "load-failed":
                ck.violation("load:" + name, f"shipped proof could not be parsed/converted: {r['detail']}", r)
                continue
            got = "accept" if r["verdict"] == "accept" else "reject"
            ck.case(ident, exp == "accept" or r["as_layout"] == r["file_layout"])
            if got != exp:
                ck.violation("verdict:" + ident, f"[{b}] {name} verified as {r['as_layout']}: model says {exp}, real verifier says {r['verdict']} ({r['detail'][:80]})", r)
                continue
            if got == "accept":
                accepted_total += 1
                if not r.get("hashes_ok"):
                    ck.violation("hashes:" + ident, f"[{b}] {name}: returned (program, output) hashes are not the Pedersen chains of the file's public memory", r)
                if not r.get("roundtrip_ok"):
                    ck.violation("roundtrip:" + ident, f"[{b}] {name}: verdict/hashes change after serialise/deserialise", r)
                ck.sample({"build": b, "file": name, "as_layout": r["as_layout"], "program_hash": r["program_hash"], "output_hash": r["output_hash"]}, limit=4)
        common.validate_trace(ck, "Trace_Stark", trace, f"[{b}] verification of shipped proofs", f"trace:{b}", timeout=3600,
                              keyfn=lambda case, bad: f"trace:{b}:{bad.get('ev')}:{os.path.basename(os.path.dirname(str(case[0]['case'].get('file'))))}/{os.path.basename(str(case[0]['case'].get('file')))}")
    ck.extra["accepting_pairs"] = accepted_total
    ck.extra["builds"] = builds
    if accepted_total == 0:
        raise vf.ToolError("no accepting (proof, build) pair was exercised")
    ck.exhaustive = not quick
    return ck.finish()
