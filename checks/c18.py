"""C18: malformed proofs are reported as errors, not crashes."""
import json
import os
import vf
from checks import common

GUARDS = ["G_FriCfgLens", "G_OodsLen", "G_CommitLens", "G_WitnessLen", "G_LeafCheck", "G_PageBounds"]


def run(tier, opts):
    ck = vf.Check("C18", tier)
    quick = tier == "quick"
    ck.rule = ("Total.tla: shape-level model of the verifier as guards and accesses; for every shape (declared layer count, lengths of the step / "
               "inner-layer / commitment / last-layer / layer-witness / OODS vectors, missing leaves, short main page: 1.6M shapes) every access "
               "reached is defined; removing any of the 6 guards yields an undefined access (non-vacuity). The harness applies to accepted proofs "
               "(toy proofs + shipped proofs + fixture, 7 layouts) every structural edit of every vector (empty, drop first/last, duplicate last, +2, "
               "rotate, truncate), every extreme value (0,1,2,2^16,2^40,2^64-1,2^64,2^128,p-1,p-2) of every config / public-input number and of sampled "
               "witness values, consistent re-declarations of dependent numbers and random pairs of edits, and runs verify, StarkConfig::validate, "
               "validate_public_input and verify_public_input under catch_unwind: any panic is a violation (keyed by entry point and panic site). "
               "non-trivial = distinct recipes")
    ck.assumptions = ["a panic is observed through catch_unwind with the harness built with panic=unwind; aborts would kill the harness (tool error)"]
    res = vf.tlc("Total", workers=8, timeout=3600)
    ck.add_tlc(res, "Total(all guards)")
    if not ck.require_tlc_ok(res, "Total"):
        return ck.finish()
    needed = {}
    for g in GUARDS:
        r = vf.tlc("Total", cfg=f"Total_no_{g}.cfg", workers=4, timeout=3600)
        vf.tlc_must_run(r, f"Total_no_{g}")
        ck.add_tlc(r, f"Total(without {g})")
        if not r.violated:
            raise vf.ToolError(f"vacuous model: removing guard {g} violates nothing")
        needed[g] = r.violated
    ck.extra["guard_removal_counterexamples"] = needed
    tmp = vf.tmpdir("C18")
    builds = [vf.DEFAULT_BUILD] if quick else [vf.DEFAULT_BUILD, vf.SECOND_BUILD]
    for b in builds:
        binp = vf.build(b)
        outp = os.path.join(tmp, f"mal-{b}.ndjson")
        r = vf.vh(binp, ["malformed", "c18", outp, 6 if quick else 40, "yes", "0" if quick else "1"], timeout=6 * 3600, check=False)
        if r.returncode != 0:
            # the process died (abort on allocation failure, stack overflow, double panic ...): that is a crash of the verifier
            if r.returncode < 0 or "memory allocation" in r.stderr or "overflowed its stack" in r.stderr or "panic in a function that cannot unwind" in r.stderr:
                ck.violation("abort:" + r.stderr.strip().splitlines()[-1][:60] if r.stderr.strip() else "abort", f"[{b}] the verifier aborted the process while running malformed recipes: {r.stderr.strip()[-300:]}", {"stderr": r.stderr[-4000:], "returncode": r.returncode})
                continue
            raise vf.ToolError(f"harness failed ({r.returncode}): {r.stderr[-2000:]}")
        recs = vf.read_ndjson(outp)
        summ = [r for r in recs if r.get("summary")][0]
        for r in recs:
            if r.get("kind") == "panic-site":
                ex = r["example"]
                ck.violation("panic:" + r["key"], f"[{b}] {ex['entry']} panicked at {ex['site']}: {ex['message']} ({r['count']} recipes, e.g. {ex['recipe']} on {ex['layout']})", r)
        ck.extra.setdefault("recipes_run", {})[b] = summ["recipes"]
        ck.evaluations += summ["recipes"]
        for i in range(summ["recipes"]):
            ck.nontrivial.add(f"{b}:{i}")
    ck.sample({"recipe": "witness.fri_witness.layers[0].leaves:empty", "expect": "error value"})
    ck.sample({"recipe": "config.fri.fri_step_sizes:drop-last", "expect": "error value"})
    return ck.finish()
