"""C02: accepted proofs are tamper-evident at every position."""
import json
import os
import re
import vf
from checks import common


def model_class(c):
    """harness path class -> position class of spec/Tamper.tla"""
    c = c.split(":", 1)[1] if ":" in c else c
    c = re.sub(r"\[\d+\]", "[]", c)
    table = [
        (r"^config\.traces\.(original|interaction)\.n_columns$", r"cfg.traces.\1.n_columns"),
        (r"^config\.traces\.(original|interaction)\.vector\.height$", r"cfg.traces.\1.height"),
        (r"^config\.traces\.(original|interaction)\.vector\.n_verifier_friendly_commitment_layers$", r"cfg.traces.\1.nvf"),
        (r"^config\.composition\.n_columns$", "cfg.composition.n_columns"),
        (r"^config\.composition\.vector\.height$", "cfg.composition.height"),
        (r"^config\.composition\.vector\.n_verifier_friendly_commitment_layers$", "cfg.composition.nvf"),
        (r"^config\.fri\.log_input_size$", "cfg.fri.log_input_size"),
        (r"^config\.fri\.n_layers$", "cfg.fri.n_layers"),
        (r"^config\.fri\.log_last_layer_degree_bound$", "cfg.fri.log_last"),
        (r"^config\.fri\.fri_step_sizes\[\](\[\])?$", "cfg.fri.step"),
        (r"^config\.fri\.inner_layers\[\]\.n_columns$", "cfg.fri.inner.n_columns"),
        (r"^config\.fri\.inner_layers\[\](\[\])?$", "cfg.fri.inner.n_columns"),
        (r"^config\.fri\.inner_layers\[\]\.vector\.height$", "cfg.fri.inner.height"),
        (r"^config\.fri\.inner_layers\[\]\.vector\.n_verifier_friendly_commitment_layers$", "cfg.fri.inner.nvf"),
        (r"^config\.proof_of_work\.n_bits$", "cfg.pow_bits"),
        (r"^config\.log_trace_domain_size$", "cfg.log_trace"),
        (r"^config\.n_queries$", "cfg.n_queries"),
        (r"^config\.log_n_cosets$", "cfg.log_cosets"),
        (r"^config\.n_verifier_friendly_commitment_layers$", "cfg.nvf"),
        (r"^public_input\.log_n_steps$", "pi.log_n_steps"),
        (r"^public_input\.range_check_min$", "pi.rc_min"),
        (r"^public_input\.range_check_max$", "pi.rc_max"),
        (r"^public_input\.layout$", "pi.layout"),
        (r"^public_input\.dynamic_params\..*$", "pi.dynamic_param"),
        (r"^public_input\.segments\[\]\.begin_addr$", "pi.segment.begin"),
        (r"^public_input\.segments\[\](\[\])?$", "pi.segment.begin"),
        (r"^public_input\.segments\[\]\.stop_ptr$", "pi.segment.stop"),
        (r"^public_input\.padding_addr$", "pi.padding_addr"),
        (r"^public_input\.padding_value$", "pi.padding_value"),
        (r"^public_input\.main_page\[\]\.address$", "pi.main_page.address"),
        (r"^public_input\.main_page\[\](\[\])?$", "pi.main_page.address"),
        (r"^public_input\.main_page\[\]\.value$", "pi.main_page.value"),
        (r"^public_input\.continuous_page_headers.*$", "pi.page_header"),
        (r"^unsent_commitment\.traces\.original$", "msg.c_orig"),
        (r"^unsent_commitment\.traces\.interaction$", "msg.c_inter"),
        (r"^unsent_commitment\.composition$", "msg.c_comp"),
        (r"^unsent_commitment\.oods_values\[\](\[\])?$", "msg.oods.mask"),
        (r"^unsent_commitment\.fri\.inner_layers\[\](\[\])?$", "msg.fri_commit"),
        (r"^unsent_commitment\.fri\.last_layer_coefficients\[\](\[\])?$", "msg.last_coef"),
        (r"^unsent_commitment\.proof_of_work\.nonce$", "msg.nonce"),
        (r"^witness\.traces_decommitment\.original\.values\[\](\[\])?$", "wit.orig.value"),
        (r"^witness\.traces_decommitment\.interaction\.values\[\](\[\])?$", "wit.inter.value"),
        (r"^witness\.composition_decommitment\.values\[\](\[\])?$", "wit.comp.value"),
        (r"^witness\.traces_witness\.original\.vector\.authentications\[\](\[\])?$", "wit.orig.auth"),
        (r"^witness\.traces_witness\.interaction\.vector\.authentications\[\](\[\])?$", "wit.inter.auth"),
        (r"^witness\.composition_witness\.vector\.authentications\[\](\[\])?$", "wit.comp.auth"),
        (r"^witness\.fri_witness\.layers\[\]\.leaves\[\](\[\])?$", "wit.fri.leaf"),
        (r"^witness\.fri_witness\.layers\[\](\[\])?$", "wit.fri.leaf"),
        (r"^witness\.fri_witness\.layers\[\]\.table_witness\.vector\.authentications\[\](\[\])?$", "wit.fri.auth"),
    ]
    for pat, rep in table:
        if re.match(pat, c):
            return re.sub(pat, rep, c)
    return None


def run(tier, opts):
    ck = vf.Check("C02", tier)
    quick = tier == "quick"
    ck.rule = ("Tamper.tla: data-flow model of the protocol (each check's support; each challenge hashes the seed and every earlier message): every "
               "position class x {replace, delete} is bound by at least one check / length guard; 'append' is the only tolerated kind. The harness "
               "walks the serialised form of accepted proofs (fresh toy proofs: every position; shipped proofs of the build + fixture: "
               + ("3 seeded positions per class" if quick else "40 seeded positions per class") + "), applies replace(+1 / random / 0), delete (each index of small "
               "vectors, first/middle/last/random of large ones) and append, and runs the real verifier: a mutant other than 'append' must not be "
               "accepted; every class of the model must have been exercised. One replaced and one deleted position per (proof, class) is also run with the hooks "
               "recording, and the trace must be a behaviour of Trace_Stark (the verifier stops at the first failing check: no decommitment of the "
               "composition or FRI after a failed trace decommitment, no acceptance after any failed check). non-trivial = distinct (class, mutation) pairs exercised")
    ck.assumptions = ["hash collision resistance; a replaced PoW nonce passes with probability 2^-n_bits",
                      "panic is 'not accepted' here (reported by C18)"]
    res = vf.tlc("Tamper", workers=2, timeout=600)
    ck.add_tlc(res, "Tamper(stone5)")
    if not ck.require_tlc_ok(res, "Tamper"):
        return ck.finish()
    catalogue = res.replays
    cfg6 = common.gen_cfg("Tamper.cfg", {"Stone6 = FALSE": "Stone6 = TRUE"}, "stone6")
    res6 = vf.tlc("Tamper", cfg=cfg6, workers=2, timeout=600)
    ck.add_tlc(res6, "Tamper(stone6)")
    if not ck.require_tlc_ok(res6, "Tamper(stone6)"):
        return ck.finish()
    model_classes = {c["class"] for c in catalogue}
    tmp = vf.tmpdir("C02")
    builds = [vf.DEFAULT_BUILD] if quick else [vf.DEFAULT_BUILD, vf.SECOND_BUILD]
    covered = set()
    for b in builds:
        binp = vf.build(b)
        outp = os.path.join(tmp, f"tamper-{b}.ndjson")
        trace = os.path.join(tmp, f"tamper-trace-{b}.ndjson")
        vf.vh(binp, ["tamper", outp, 12 if quick else 60, "sample", 3 if quick else 40, trace], timeout=6 * 3600)
        recs = vf.read_ndjson(outp)
        summ = [r for r in recs if r.get("summary")][0]
        for r in recs:
            if r.get("kind") == "subject-not-accepted":
                # an honest proof (reference prover of the harness, or a shipped Stone proof of this build) is rejected: the
                # premise "accepted proof" cannot be established because the verifier lost completeness
                kindp = "toy" if r["id"].startswith("toy") else "shipped"
                ck.violation(f"honest-proof-rejected:{b}:{kindp}", f"[{b}] an honest proof is rejected by the verifier: {r['id'][:80]}: {r['detail'][:160]}", r)
            if r.get("kind") == "class":
                mc = model_class(r["class"])
                if mc is None:
                    raise vf.ToolError(f"harness position class {r['class']} has no counterpart in Tamper.tla")
                covered.add(mc)
                if mc == "msg.oods.mask":
                    covered.add("msg.oods.comp")
                ck.case(f"{b}:{r['class']}:{r['mutation']}", True)
                ck.evaluations += r["tested"] - 1
            if r.get("kind") == "accepted-mutant":
                if r["path"] == "config.n_queries" and r.get("same_query_set"):
                    key = "config.n_queries:sample-collision"
                else:
                    key = f"accepted:{b}:{r['layout']}:{r['class']}:{r['mutation']}"
                ck.violation(key, f"[{b}] mutant accepted: {r['mutation']} at {r['path']} of {r['subject'][:60]}", r)
        # recorded runs of one replaced / one deleted position per (subject, class): the verifier must stop where the spec says
        ncases = sum(1 for r in vf.read_ndjson(trace) if r.get("ev") == "reset")
        common.validate_trace(ck, "Trace_Stark", trace, f"[{b}] verification of tampered proofs", f"trace:{b}", timeout=3600, max_rounds=20,
                              keyfn=lambda case, bad: f"trace:{b}:{bad.get('ev')}:{'toy' if case[0]['case']['subject'].startswith('toy') else case[0]['case']['subject'].split('/')[0]}:{case[0]['case']['mutation']}:{case[0]['case']['path'].split('[')[0]}")
        ck.extra.setdefault("tampered_runs_trace_validated", {})[b] = ncases
        ck.extra.setdefault("mutants_verified", {})[b] = summ["mutants"]
        ck.extra.setdefault("subjects", {})[b] = summ["subjects"]
    missing = model_classes - covered - {"pi.dynamic_param", "pi.page_header"}
    if "blake2s_248_lsb-stone6" in builds and "pi.dynamic_param" not in covered:
        missing.add("pi.dynamic_param")
    if missing:
        raise vf.ToolError(f"position classes of the model never exercised on real code: {sorted(missing)}")
    ck.extra["classes_covered"] = sorted(covered)
    for c in catalogue[:2] + [c for c in catalogue if c["class"] == "wit.fri.auth"][:1]:
        ck.sample(c)
    return ck.finish()
