"""C14: public-input validation and returned hashes follow the memory layout."""
import json
import os
import vf
from checks import common


def run(tier, opts):
    ck = vf.Check("C14", tier)
    ck.rule = ("MC_PublicInput: ValidPI (integer reading: step count x rows per step = trace length, segment count, layout code, 0 <= rc_min < rc_max "
               "<= limit, each builtin usage a whole number of instances <= floor(trace length / row ratio)) on a labelled catalogue of 28 deviations, "
               "and ProgramOutputOK on 13 main-page perturbations. Each label is instantiated on the public input of a shipped proof of each of the 7 "
               "layouts with that layout's own row ratios / cells per instance (dynamic: the shipped parameter set; deviations changing the trace size "
               "are not applied to it) and run on the real validate_public_input / verify_public_input: verdict = model, returned hashes = Pedersen "
               "chains of the addressed cells. non-trivial = every (layout, label) pair")
    ck.assumptions = ["row ratios and cells per instance of the static layouts are those of the Cairo layout definitions (table in harness/src/cmd_pubinput.rs)",
                      "swap of two whole cells and a surplus cell after the output may either be rejected or hashed by address"]
    res = vf.tlc("MC_PublicInput", workers=2, timeout=600)
    ck.add_tlc(res, "MC_PublicInput")
    if not ck.require_tlc_ok(res, "MC_PublicInput"):
        return ck.finish()
    tmp = vf.tmpdir("C14")
    inp = os.path.join(tmp, "cases.ndjson")
    vf.write_ndjson(inp, res.replays)
    binp = vf.build()
    outp = os.path.join(tmp, "out.ndjson")
    vf.vh(binp, ["pi-validate", inp, outp])
    results = vf.read_ndjson(outp)
    summ = [r for r in results if r.get("summary")][0]
    for r in results:
        if r.get("summary"):
            continue
        what = json.dumps(r.get("dev") or r.get("pagedev"))
        if r["kind"] == "panic":
            ck.violation(f"panic:{r['layout']}:{what}", f"{r['why']} at {r['where']} ({r['layout']}, {what})", r)
        else:
            ck.violation(f"{r['kind']}:{r['layout']}:{what}", f"[{r['layout']}] {what}: {r['why']}", r)
    devs = sorted({json.dumps(c["dev"]) for c in res.replays})
    pages = sorted({c["pagedev"] for c in res.replays})
    for l in ["dex", "dynamic", "recursive", "recursive_with_poseidon", "small", "starknet", "starknet_with_keccak"]:
        for d in devs:
            ck.case(f"{l}:{d}")
        for p in pages:
            ck.case(f"{l}:page:{p}")
    ck.extra["impl_cases"] = summ["cases"]
    ck.sample({"dev": ["usage", 1, "copies+1"], "expect_valid": False})
    ck.sample({"pagedev": "shift-all", "expect": "rejected"})
    return ck.finish()
