"""Helpers shared by check scripts."""
import json
import os
import re
import vf


def gen_cfg(base_cfg, subst, suffix):
    """Write a derived TLC config (constant overrides by text substitution) next to the spec."""
    txt = open(os.path.join(vf.SPEC, base_cfg)).read()
    for k, v in subst.items():
        if k not in txt:
            raise vf.ToolError(f"{base_cfg}: cannot substitute {k!r}")
        txt = txt.replace(k, v)
    name = base_cfg.replace(".cfg", f"_{suffix}.gen.cfg")
    with open(os.path.join(vf.SPEC, name), "w") as f:
        f.write(txt)
    return name


def _rejected_index(res):
    for p in res.prints:
        m = re.search(r'"TRACE-REJECTED",\s*(\d+)', p)
        if m:
            return int(m.group(1))
    m = re.search(r'"TRACE-REJECTED",\s*(\d+)', res.out)
    return int(m.group(1)) if m else None


def validate_trace(ck, module, trace_path, what, key_prefix, timeout=1800, extra_env=None, keyfn=None, max_rounds=12):
    """Run a Trace_* spec over a recorded ndjson trace (cases separated by `reset` events).
    On rejection the offending case is reported, removed, and the rest re-validated, so that one
    bad case does not hide the others.  Returns True if the whole trace was accepted at once."""
    recs = vf.read_ndjson(trace_path)
    first = True
    all_ok = True
    cur_path = trace_path
    for rnd in range(max_rounds):
        env = {"TRACE": cur_path}
        if extra_env:
            env.update(extra_env)
        res = vf.tlc(module, env=env, workers=1, timeout=timeout, dfs=True, coverage=False, heap="8g")
        ck.add_tlc(res, module)
        vf.tlc_must_run(res, module)
        if not res.violated:
            if first:
                ck.traces += 1
            return all_ok
        all_ok = False
        first = False
        idx = _rejected_index(res)
        inv = [v for v in res.violated if v != "POSTCONDITION"]
        if idx is None and inv:
            # an invariant failed: the offending event is the last consumed one = number of states - 1
            idx = max(1, res.distinct - 1)
        if idx is None or idx > len(recs):
            ck.violation(f"{key_prefix}:unlocated", f"{what}: trace rejected by {module} (event not located)", {"violated": res.violated})
            return False
        bad = recs[idx - 1]
        lo = idx - 1
        while lo > 0 and recs[lo].get("ev") != "reset":
            lo -= 1
        hi = idx
        while hi < len(recs) and recs[hi].get("ev") != "reset":
            hi += 1
        case = recs[lo:hi]
        key = keyfn(case, bad) if keyfn else f"{key_prefix}:{bad.get('ev')}"
        if inv:
            key += ":" + ",".join(inv)
        ck.violation(key, f"{what}: recorded trace of the real code is not a behaviour of {module}"
                     + (f" (invariant {inv})" if inv else f" (event #{idx - lo} of the case, '{bad.get('ev')}', cannot be explained)"),
                     {"module": module, "unexplained_event": bad, "violated": res.violated, "case_trace": case})
        recs = recs[:lo] + recs[hi:]
        if not recs:
            return False
        cur_path = trace_path + f".r{rnd}"
        vf.write_ndjson(cur_path, recs)
    return False


def collect_replay_results(ck, outp, what, keyfn):
    results = vf.read_ndjson(outp)
    summ = [r for r in results if r.get("summary")]
    if not summ:
        raise vf.ToolError(f"{what}: replay produced no summary")
    for r in results:
        if r.get("summary"):
            continue
        ck.violation(keyfn(r), f"{what}: " + r.get("why", ""), r)
    return summ[0]


def _mutate_value(v):
    if isinstance(v, bool):
        return not v
    if isinstance(v, int):
        return v + 1
    if isinstance(v, str):
        if v.startswith("0x"):
            body = v[2:] or "0"
            last = body[-1]
            return "0x" + body[:-1] + ("1" if last != "1" else "2")
        if v and all(c in "0123456789abcdef" for c in v):
            return v[:-1] + ("1" if v[-1] != "1" else "2")
        return v + "x"
    if isinstance(v, list) and v:
        w = list(v)
        w[0] = _mutate_value(w[0])
        return w
    return v


def selftest_trace(ck, module, trace_path, targets, max_events=6000, timeout=1800):
    """Binding demonstration: corrupt one recorded field (or drop one event) of an accepted trace and require
    the trace specification to reject it.  `targets`: list of (event name, field or None=drop the event).
    A corruption that is still accepted means the trace spec does not constrain that field: tool error."""
    recs = vf.read_ndjson(trace_path)[:max_events]
    # cut at a case boundary
    while recs and recs[-1].get("ev") not in ("result", "vc.result", "tc.result", "fri.result", "pow.result", "commit.end", "points.ret", "domains", "diluted", "pubmem", "linear"):
        recs.pop()
    # only events inside cases that end in an accepting result are candidates: in a rejected case the
    # code may stop before a corrupted intermediate value is ever used
    ok_case = [False] * len(recs)
    start = 0
    for i, r in enumerate(recs + [{"ev": "reset"}]):
        if r.get("ev") == "reset" and i > start:
            good = any(x.get("ok") is True and str(x.get("ev", "")).endswith("result") for x in recs[start:i]) or \
                not any(str(x.get("ev", "")).endswith("result") for x in recs[start:i])
            for j in range(start, i):
                ok_case[j] = good
            start = i
    done = []
    for ev, field in targets:
        idx = [i for i, r in enumerate(recs) if ok_case[i] and r.get("ev") == ev and (field is None or field in r)]
        if not idx:
            continue
        i = idx[len(idx) // 2]
        mutated = [dict(r) for r in recs]
        if field is None:
            del mutated[i]
        else:
            mutated[i][field] = _mutate_value(mutated[i][field])
        p = trace_path + f".selftest.{ev}.{field}"
        vf.write_ndjson(p, mutated)
        res = vf.tlc(module, env={"TRACE": p}, workers=1, timeout=timeout, dfs=True, coverage=False, heap="8g")
        vf.tlc_must_run(res, module + " selftest")
        rejected = bool(res.violated)
        done.append({"event": ev, "field": field or "<event dropped>", "rejected": rejected})
        os.remove(p)
        if not rejected:
            raise vf.ToolError(f"selftest: {module} accepts a trace with {ev}.{field} corrupted - the trace specification does not bind that field")
    ck.extra.setdefault("selftest", {})[module] = done
    return done
