"""Helpers shared by check scripts."""
import json
import os
import vf


def gen_cfg(base_cfg, subst, suffix):
    """Write a derived TLC config (constant overrides by text substitution) next to the spec."""
    txt = open(os.path.join(vf.SPEC, base_cfg)).read()
    for k, v in subst.items():
        if k not in txt:
            raise vf.ToolError(f"{base_cfg}: cannot substitute {k!r}")
        txt = txt.replace(k, v)
    name = base_cfg.replace(".cfg", f"_{suffix}.gen.cfg")
    with open(os.path.join(vf.SPEC, name), "w") as f:
        f.write(txt)
    return name


def validate_trace(ck, module, trace_path, what, key_prefix, timeout=1800, extra_env=None):
    """Run a Trace_* spec over a recorded ndjson trace. Returns True if accepted."""
    env = {"TRACE": trace_path}
    if extra_env:
        env.update(extra_env)
    res = vf.tlc(module, env=env, workers=1, timeout=timeout, dfs=True, coverage=False, heap="8g")
    ck.add_tlc(res, module)
    vf.tlc_must_run(res, module)
    if res.violated:
        recs = vf.read_ndjson(trace_path)
        rej = [p for p in res.prints if "TRACE-REJECTED" in p]
        # locate the event index
        idx = None
        if rej:
            import re
            m = re.search(r'"TRACE-REJECTED", (\d+)', rej[0])
            if m:
                idx = int(m.group(1))
        bad = recs[idx - 1] if idx and idx <= len(recs) else None
        # find the enclosing case (last reset before idx)
        case = None
        if idx:
            for r in recs[:idx][::-1]:
                if r.get("ev") == "reset":
                    case = r
                    break
        inv = [v for v in res.violated if v != "POSTCONDITION"]
        p = ck.replay_file(os.path.basename(trace_path), open(trace_path).read())
        key = f"{key_prefix}:{(bad or {}).get('ev')}" + (":" + ",".join(inv) if inv else "")
        ck.violation(key, f"{what}: recorded trace of the real code is not a behaviour of {module}" + (f" (invariant {inv})" if inv else ""),
                     {"first_unexplained_event_index": idx, "event": bad, "case": case, "trace": p, "violated": res.violated})
        return False
    ck.traces += 1
    return True


def collect_replay_results(ck, outp, what, keyfn):
    results = vf.read_ndjson(outp)
    summ = [r for r in results if r.get("summary")]
    if not summ:
        raise vf.ToolError(f"{what}: replay produced no summary")
    for r in results:
        if r.get("summary"):
            continue
        ck.violation(keyfn(r), f"{what}: " + r.get("why", ""), r)
    return summ[0]
