"""C15: closed-form AIR boundary values equal their defining products."""
import os
import vf
from checks import common


def run(tier, opts):
    ck = vf.Check("C15", tier)
    quick = tier == "quick"
    mb, ms = (4, 2) if quick else (6, 4)
    ck.rule = (f"MC_AirGlue (F_97, exhaustive in z and alpha): log-step doubling of diluted.rs = defining recurrence for n_bits 1..{mb}, spacing 1..{ms}; "
               "power-of-padding form of the public-memory ratio = product over the explicitly padded cell list (0..3 cells, 0..2 padding cells, 0..2 "
               "page products). Trace_AirGlue (real field): recorded get_diluted_product calls for every (n_bits 1..10, spacing 1..4)"
               + ("" if quick else " and the layouts' (16, 4) (65 536 steps each)") + " with z/alpha incl. 0, 1, -1 and random, and "
               "get_public_memory_product_ratio on generated public memories (0..23 cells, 0..2 continuous pages, 0..199 padding cells): TLC recomputes "
               "the defining recurrence / product with 252-bit arithmetic. non-trivial = every recorded call")
    ck.assumptions = ["BigField.class arithmetic"]
    cfg = common.gen_cfg("MC_AirGlue.cfg", {"MaxBits = 5": f"MaxBits = {mb}", "MaxSpacing = 3": f"MaxSpacing = {ms}"}, tier)
    res = vf.tlc("MC_AirGlue", cfg=cfg, workers=12, timeout=7200)
    ck.add_tlc(res, "MC_AirGlue(diluted)")
    if not ck.require_tlc_ok(res, "MC_AirGlue"):
        return ck.finish()
    res = vf.tlc("MC_AirGlue", cfg="MC_AirGlue_pubmem.cfg", workers=12, timeout=7200)
    ck.add_tlc(res, "MC_AirGlue(pubmem)")
    if not ck.require_tlc_ok(res, "MC_AirGlue(pubmem)"):
        return ck.finish()
    tmp = vf.tmpdir("C15")
    binp = vf.build()
    trace = opts.get("replay") or os.path.join(tmp, "airvals.ndjson")
    if not opts.get("replay"):
        vf.vh(binp, ["airvals", trace, 60 if quick else 200, 10, 60 if quick else 400] + ([] if quick else ["full16"]))
    recs = vf.read_ndjson(trace)
    good = []
    for r in recs:
        if r["ev"].endswith(".panic"):
            ck.violation(f"panic:{r['ev']}:{r['where']}", f"{r['ev']} at {r['where']}", r)
        else:
            good.append({"ev": "reset"})
            good.append(r)
            ck.case(str(r), True)
    vf.write_ndjson(trace + ".v", good)
    common.validate_trace(ck, "Trace_AirGlue", trace + ".v", "AIR boundary values", "trace", timeout=7200,
                          keyfn=lambda case, bad: f"trace:{bad.get('ev')}:" + (f"n_bits={bad.get('n_bits')},spacing={bad.get('spacing')}" if bad.get('ev') == 'diluted' else f"cells={len(bad.get('cells', []))}"))
    for r in [x for x in recs if x["ev"] == "diluted"][:2]:
        ck.sample(r)
    return ck.finish()
