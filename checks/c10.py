"""C10: query indices are in range, strictly increasing, and map to the right points."""
import os
import vf
from checks import common


def run(tier, opts):
    ck = vf.Check("C10", tier)
    per = 6 if tier == "quick" else 36
    ck.rule = ("MC_Queries: every raw sequence of length 0..4 (5 in thorough) over a colliding alphabet x domain sizes 2,4,8,16: the rule's output is in "
               "range, strictly increasing, at most n long and has exactly the sampled set. Trace_Queries: real generate_queries on real transcripts "
               f"for every domain size 2^1..2^64 x {per} query counts (1, small, = size, > size, 48, random): TLC checks transcript chaining of the "
               "squeezes, recomputes (low 128 bits) mod size, sort and de-duplication with big naturals, the property on the returned vector, and "
               "queries_to_points = 3*w^bitrev(q) at the real field. non-trivial = n >= 2")
    ck.assumptions = ["Poseidon output taken from the code's squeeze event, re-computed by the harness (hok)"]
    maxn = 4 if tier == "quick" else 5
    cfg = common.gen_cfg("MC_Queries.cfg", {"MaxN = 4": f"MaxN = {maxn}"}, tier)
    res = vf.tlc("MC_Queries", cfg=cfg, workers=8, timeout=3000)
    ck.add_tlc(res, "MC_Queries")
    if not ck.require_tlc_ok(res, "MC_Queries"):
        return ck.finish()
    tmp = vf.tmpdir("C10")
    binp = vf.build()
    trace = opts.get("replay") or os.path.join(tmp, "queries.ndjson")
    if not opts.get("replay"):
        vf.vh(binp, ["queries", trace, per])
    recs = vf.read_ndjson(trace)
    # split into cases so that one bad case does not hide the others
    cases, cur = [], []
    for r in recs:
        if r["ev"] == "reset" and cur:
            cases.append(cur)
            cur = []
        cur.append(r)
    if cur:
        cases.append(cur)
    good = []
    for c in cases:
        pan = [r for r in c if r["ev"].endswith(".panic")]
        if pan:
            ck.violation(f"panic:{pan[0]['where']}", f"query generation panicked at {pan[0]['where']}", c)
            continue
        good.extend(c)
        ck.case(str(c[0].get("case")) + ":" + str(c[0].get("log")) + ":" + str(c[0].get("n")), c[0].get("n", 0) >= 2)
    vf.write_ndjson(trace + ".v", good)
    ok = common.validate_trace(ck, "Trace_Queries", trace + ".v", "query generation", "trace",
                               keyfn=lambda case, bad: f"trace:{bad.get('ev')}:log={case[0].get('log')},n={case[0].get('n')}")
    if ok and (opts.get("selftest") or tier == "thorough"):
        common.selftest_trace(ck, "Trace_Queries", trace + ".v", [("queries", "out"), ("queries.ret", "out"), ("points", "pts"), ("points", "gen"), ("squeeze", None)])   # (a changed squeeze output is invisible when the domain is tiny: not a selftest target)
    for c in cases[:1] + cases[len(cases) // 2:len(cases) // 2 + 1]:
        q = [r for r in c if r["ev"] == "queries"]
        ck.sample({"log_size": c[0].get("log"), "n": c[0].get("n"), "out": q[0]["out"] if q else None})
    return ck.finish()
