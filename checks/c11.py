"""C11: configuration validation accepts exactly the consistent, sufficiently secure configurations."""
import json
import os
import vf
from checks import common


def run(tier, opts):
    ck = vf.Check("C11", tier)
    maxdevs = 1 if tier == "quick" else 2
    ck.rule = (f"StarkConfig.tla: honest base configuration x every combination of <= {maxdevs} deviation(s) from a catalogue of ~190 (boundary and "
               "wrap-around values p-1, p-2 of each declared number, per-layer heights / columns / steps, vector lengths, and composite consistent "
               "re-declarations: shifted FRI description, blow-up exponent modulo the field, extra layer, shifted trace exponent) x 7 security levels; "
               "TLC checks Validate(code-shaped, field arithmetic) = ok <=> ConfigOK(property, integers). Every configuration is replayed on the real "
               "StarkConfig::validate (model value x > P/2 lifted to p-(P-x)); accept/reject must equal ConfigOK. "
               "non-trivial = configuration differs from the base or is accepted")
    ck.assumptions = ["wrap-around behaviour at the real prime is represented by the same offsets from p in the small model prime"]
    tmp = vf.tmpdir("C11")
    if opts.get("replay"):
        cases = [json.load(open(opts["replay"]))["case"]]
    else:
        cfg = common.gen_cfg("StarkConfig.cfg", {"MaxDevs = 1": f"MaxDevs = {maxdevs}"}, tier)
        res = vf.tlc("StarkConfig", cfg=cfg, workers=8, timeout=6000, heap="16g")
        ck.add_tlc(res, "StarkConfig")
        if not ck.require_tlc_ok(res, "StarkConfig"):
            return ck.finish()
        ck.require_coverage(res, ["Run"], "StarkConfig")
        cases = res.replays
    inp = os.path.join(tmp, "cases.ndjson")
    vf.write_ndjson(inp, cases)
    binp = vf.build()
    outp = os.path.join(tmp, "out.ndjson")
    vf.vh(binp, ["config", inp, outp])
    results = vf.read_ndjson(outp)
    summ = [r for r in results if r.get("summary")][0]
    for r in results:
        if r.get("summary"):
            continue
        if r["kind"] == "verdict":
            ck.violation("replay:" + json.dumps([r["case"]["devs"], r["case"]["sec"]]), "real StarkConfig::validate disagrees with the property predicate: " + r["why"], r)
        # panics are C18's business; they are "not accepted" here
    for c in cases:
        ck.case(json.dumps([c["devs"], c["sec"]]), c["devs"][0][0] != "none" or c["expect"] == "ok")
    ck.extra["behaviours_replayed_on_impl"] = summ["cases"]
    ck.extra["impl_panics_seen"] = summ["panics"]
    ck.extra["accepted_configurations"] = sum(1 for c in cases if c["expect"] == "ok")
    for c in cases[:1] + [c for c in cases if c["devs"][0][0] in ("cosetsWrap", "fri.shiftAll")][:2]:
        ck.sample({"devs": c["devs"], "sec": c["sec"], "expect": c["expect"]})
    # unbounded: Apalache on the 3-layer shape over all field elements (real prime)
    ap = run_apalache(ck, tier)
    ck.extra["apalache"] = ap
    return ck.finish()


def run_apalache(ck, tier):
    import subprocess, shutil, time
    out = os.path.join(vf.WORK, "apalache-c11-" + str(os.getpid()))
    shutil.rmtree(out, ignore_errors=True)
    t0 = time.time()
    r = subprocess.run(["timeout", "900", "apalache-mc", "check", "--length=0", "--inv=Exact", f"--out-dir={out}", "--run-dir=" + out, "CfgExact.tla"],
                       cwd=vf.SPEC, capture_output=True, text=True)
    txt = r.stdout + r.stderr
    shutil.rmtree(out, ignore_errors=True)
    if r.returncode == 124:
        raise vf.ToolError("apalache timeout")
    if "The outcome is: NoError" in txt:
        return {"outcome": "NoError", "shape": "3 FRI layers, all numbers arbitrary field elements at the real prime", "wall_s": round(time.time() - t0, 1)}
    if "The outcome is: Error" in txt or "violat" in txt:
        ck.violation("apalache:CfgExact", "Apalache found a configuration where the code-shaped validation and the property predicate differ", {"apalache_tail": txt[-3000:]})
        return {"outcome": "Error"}
    raise vf.ToolError("apalache failed: " + txt[-2000:])
