"""C17: verification work is bounded by the size of the proof."""
import json
import os
import vf
from checks import common


def run(tier, opts):
    ck = vf.Check("C17", tier)
    quick = tier == "quick"
    ck.rule = ("Work.tla: every loop of the verifier with the quantity bounding its iterations (supplied data, a layout constant, or a declared number); "
               "declared numbers range over symbolic magnitudes {ok, zero, small, big, huge}; a loop bounded by a declared number must be preceded by a "
               "guard bounding it: WorkBounded holds with the range guards and fails without either (non-vacuity). The harness sets every numeric field "
               "of accepted proofs (toy + shipped, 7 layouts) to 0,1,2,2^16,2^40,2^64-1,2^64,2^128,p-1,p-2, alone, in pairs and with consistent "
               "re-declarations, and runs the real verifier under an event budget of 40 x (number of values in the proof) + 2000 hooked events (every "
               "hash, transcript operation, coset and query is an event) and a 20 s wall clock, and under an allocation meter (global allocator of the harness: peak live bytes and largest single request of the "
               "verifying thread, budget 2 KiB x values + 1 MiB; honest runs need about 150 bytes per value); validate_public_input, verify_public_input and "
               "StarkConfig::validate are also run alone on every mutated proof under the same meter: exhausting any budget is a violation; a run that does not return within 120 s "
               "is reported by the harness watchdog. "
               "non-trivial = distinct recipes")
    ck.assumptions = ["work is counted in hooked events (hashes, transcript operations, FRI cosets); pure field arithmetic between events is bounded by the 252-bit exponent size",
                      "time and memory are measured, not modelled"]
    res = vf.tlc("Work", workers=4, timeout=1200)
    ck.add_tlc(res, "Work(all guards)")
    if not ck.require_tlc_ok(res, "Work"):
        return ck.finish()
    for g in ["G_Ranges", "G_FriRanges"]:
        r = vf.tlc("Work", cfg=f"Work_no_{g}.cfg", workers=4, timeout=1200)
        vf.tlc_must_run(r, f"Work_no_{g}")
        ck.add_tlc(r, f"Work(without {g})")
        if not r.violated:
            raise vf.ToolError(f"vacuous model: removing guard {g} violates nothing")
    tmp = vf.tmpdir("C17")
    builds = [vf.DEFAULT_BUILD] if quick else [vf.DEFAULT_BUILD, vf.SECOND_BUILD]
    for b in builds:
        binp = vf.build(b)
        outp = os.path.join(tmp, f"work-{b}.ndjson")
        r = vf.vh(binp, ["malformed", "c17", outp, 6 if quick else 40, "yes", "0" if quick else "1"], timeout=6 * 3600, check=False)
        if r.returncode != 0:
            if r.returncode == 3 and "WATCHDOG-TIMEOUT" in r.stderr:
                line = [l for l in r.stderr.splitlines() if "WATCHDOG-TIMEOUT" in l][-1]
                label = line.split(": ", 1)[1] if ": " in line else line
                ck.violation("hang:" + label.split(" | ")[0][:80], f"[{b}] verification did not return within 120 s (honest runs take milliseconds): {label[:300]}", {"stderr": r.stderr[-4000:], "case": label})
                continue
            if "memory allocation" in r.stderr:
                ck.violation("alloc:" + r.stderr.strip().splitlines()[-1][:60], f"[{b}] the verifier tried to allocate memory in proportion to a declared number: {r.stderr.strip()[-300:]}", {"stderr": r.stderr[-4000:]})
                continue
            raise vf.ToolError(f"harness failed ({r.returncode}): {r.stderr[-2000:]}")
        recs = vf.read_ndjson(outp)
        summ = [r for r in recs if r.get("summary")][0]
        for r in recs:
            if r.get("kind") == "work":
                ck.violation(f"work:{b}:{r['layout']}:{r['recipe']}", f"[{b}] {r['why']}: {r['recipe']} on {r['subject'][:50]} used {r['used']} events (budget {r['budget']}), {r['ms']} ms", r)
        ck.extra.setdefault("recipes_run", {})[b] = summ["recipes"]
        ck.extra.setdefault("max_events_per_value", {})[b] = summ["max_events_per_leaf"]
        ck.extra.setdefault("max_ms", {})[b] = summ["max_ms"]
        ck.extra.setdefault("max_bytes_per_value", {})[b] = summ["max_bytes_per_value"]
        ck.extra.setdefault("honest_peak_bytes", {})[b] = summ["honest_peak_bytes"]
        ck.extra.setdefault("honest_events", {})[b] = summ["honest_events"]
        ck.evaluations += summ["recipes"]
        for i in range(summ["recipes"]):
            ck.nontrivial.add(f"{b}:{i}")
    ck.sample({"recipe": "config.n_queries=2^40", "expect": "rejected within budget"})
    return ck.finish()
