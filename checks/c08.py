"""C08: Fiat-Shamir challenges depend on exactly the messages sent before them."""
import json
import os
import vf
from checks import common


def run(tier, opts):
    ck = vf.Check("C08", tier)
    max_ops = 4 if tier == "quick" else 5
    ck.rule = (f"TLC enumerates every history of <= {max_ops} operations over 11 operation kinds (absorb felt a/b, vectors <>,<a>,<a,b>,<b,a>, "
               "u64 0/1, squeeze, squeeze-many 0/2) and checks on the model that digest and challenge terms decode back to the absorbed "
               "prefix and counter (injective), are pairwise distinct and stable; every maximal history is replayed on the real Transcript "
               "under 2 random instantiations (digest, counter after every op, every challenge value; global equal-term<=>equal-value "
               "partition). Trace_IE: for each of the 7 layouts the interaction elements returned by traces_commit, by field name, are the squeezes in the Cairo verifier's element order. non-trivial = history contains at least one squeeze after an absorb")
    ck.assumptions = ["Poseidon (starknet-crypto) is collision resistant: modelled as a free constructor",
                      "harness term evaluator calls starknet_crypto::poseidon_hash / poseidon_hash_many"]
    tmp = vf.tmpdir("C08")
    cfg = os.path.join(vf.SPEC, "MC_Transcript.cfg")
    if max_ops != 4:
        cfgtxt = open(cfg).read().replace("MaxOps = 4", f"MaxOps = {max_ops}")
        cfg = os.path.join(vf.SPEC, f"MC_Transcript_{max_ops}.gen.cfg")
        open(cfg, "w").write(cfgtxt)
    if opts.get("replay"):
        cases = [json.load(open(opts["replay"]))["case"]]
    else:
        res = vf.tlc("MC_Transcript", cfg=os.path.basename(cfg), workers=8, timeout=3000, heap="16g")
        ck.add_tlc(res, "MC_Transcript")
        if not ck.require_tlc_ok(res, "MC_Transcript"):
            return ck.finish()
        ck.require_coverage(res, ["Step"], "MC_Transcript")
        cases = res.replays
        if not cases:
            raise vf.ToolError("MC_Transcript emitted no behaviours")
    inp = os.path.join(tmp, "cases.ndjson")
    vf.write_ndjson(inp, cases)
    binp = vf.build()
    outp = os.path.join(tmp, "out.ndjson")
    vf.vh(binp, ["transcript", inp, outp])
    results = vf.read_ndjson(outp)
    summ = [r for r in results if r.get("summary")]
    if not summ:
        raise vf.ToolError("transcript replay produced no summary")
    for r in results:
        if r.get("summary"):
            continue
        key = "replay:" + json.dumps(r["case"]["ops"])
        ck.violation(key, "real Transcript disagrees with the spec: " + r["why"], r)
    for c in cases:
        ops = c["ops"]
        seen_abs = False
        nt = False
        for o in ops:
            if o[0] in ("felt", "vec", "u64"):
                seen_abs = True
            elif seen_abs and (o[0] == "squeeze" or (o[0] == "squeezes" and o[1] > 0)):
                nt = True
        ck.case(json.dumps(ops), nt)
    ck.extra["behaviours_replayed_on_impl"] = summ[0]["cases"]
    # interaction elements of the seven layouts: named element = squeeze at its position in the Cairo verifier's list
    if not opts.get("replay"):
        iet = os.path.join(tmp, "ie.ndjson")
        vf.vh(binp, ["ie-order", iet, 2])
        common.validate_trace(ck, "Trace_IE", iet, "interaction elements", "trace:ie",
                              keyfn=lambda case, bad: f"trace:ie:{case[0].get('layout')}:{bad.get('ev')}")
    for c in cases[:1] + cases[len(cases) // 2:len(cases) // 2 + 1]:
        ck.sample({"ops": c["ops"], "counters": c["counters"], "n_challenges": len(c["outs"])})
    ck.exhaustive = True
    return ck.finish()
