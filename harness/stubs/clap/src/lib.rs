// stub: /repo/proof_parser lists clap but never uses it; the real crate cannot be resolved offline
