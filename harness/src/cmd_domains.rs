//! C12: record StarkDomains::new(t, c) for every pair with t + c <= max.
use crate::util::*;
use serde_json::json;
use starknet_crypto::Felt;
use swiftness_air::domains::StarkDomains;

pub fn run(args: &[String]) {
    let max: u64 = args[0].parse().unwrap();
    let mut out = Out::file(&args[1]);
    // every pair twice, in two orders: row by row, then along the anti-diagonals (consecutive calls with the same evaluation
    // domain and a different split): the result of a call must not depend on the calls before it
    let mut order: Vec<(u64, u64)> = Vec::new();
    for t in 0..=max { for c in 0..=(max - t) { order.push((t, c)); } }
    for s in 0..=max { for t in 0..=s { order.push((t, s - t)); } }
    {
        for (t, c) in order {
            match guarded(|| StarkDomains::new(Felt::from(t), Felt::from(c))) {
                Ok(d) => out.line(&json!({"ev":"domains","t":t,"c":c,
                    "log_eval":hex(&d.log_eval_domain_size),"eval_size":hex(&d.eval_domain_size),"eval_gen":hex(&d.eval_generator),
                    "log_trace":hex(&d.log_trace_domain_size),"trace_size":hex(&d.trace_domain_size),"trace_gen":hex(&d.trace_generator)})),
                Err(e) => out.line(&json!({"ev":"domains.panic","t":t,"c":c,"where":e})),
            }
        }
    }
}
