//! C13 (seed binds every field) and C14 (public-input validation / program+output hashes follow the memory layout).
use crate::real;
use crate::terms::{eval, Env, Partition};
use crate::util::*;
use serde_json::{json, Value};
use starknet_crypto::{pedersen_hash, poseidon_hash_many, Felt};
use swiftness_air::domains::StarkDomains;
use swiftness_air::layout::LayoutTrait;
use swiftness_air::public_memory::PublicInput;
use swiftness_air::types::{AddrValue, ContinuousPageHeader, Page, SegmentInfo};
use swiftness_stark::types::StarkProof;

pub const STONE6: bool = cfg!(feature = "stone6");

/// Reference seed, written from spec/PublicInput.tla (SeedTerm), independent of PublicInput::get_hash.
pub fn seed_ref(pi: &PublicInput, nvf: Felt) -> Felt {
    let mut h = Felt::ZERO;
    for c in pi.main_page.iter() { h = pedersen_hash(&h, &c.address); h = pedersen_hash(&h, &c.value); }
    h = pedersen_hash(&h, &Felt::from(2 * pi.main_page.len() as u64));
    let mut d: Vec<Felt> = Vec::new();
    if STONE6 { d.push(nvf); }
    d.extend([pi.log_n_steps, pi.range_check_min, pi.range_check_max, pi.layout]);
    if let Some(dp) = &pi.dynamic_params { let v: Vec<usize> = dp.clone().into(); d.extend(v.into_iter().map(|x| Felt::from(x as u64))); }
    for s in &pi.segments { d.push(s.begin_addr); d.push(s.stop_ptr); }
    d.extend([pi.padding_addr, pi.padding_value, Felt::from(pi.continuous_page_headers.len() as u64 + 1), Felt::from(pi.main_page.len() as u64), h]);
    for hd in &pi.continuous_page_headers { d.extend([hd.start_address, hd.size, hd.hash]); }
    poseidon_hash_many(&d)
}

fn clone_pi(pi: &PublicInput) -> PublicInput { serde_json::from_value(serde_json::to_value(pi).unwrap()).unwrap() }

/// base public inputs: one per layout (first shipped proof of the layout) + config numbers needed for the domains
pub fn bases() -> Vec<(String, StarkProof)> {
    let mut out = Vec::new();
    let mut seen = std::collections::BTreeSet::new();
    for f in real::list_proofs() {
        if seen.contains(&f.layout) { continue; }
        if let Ok(p) = real::load(&f.text) { seen.insert(f.layout.clone()); out.push((f.layout.clone(), p)); }
    }
    out
}

// ------------------------------------------------------------ C13
/// args: seed <terms.ndjson> <out.ndjson>
pub fn run_seed(args: &[String]) {
    let mut out = Out::file(&args[1]);
    let mut rng = Rng::from_env(0xC13);
    let (mut cases, mut bad) = (0u64, 0u64);
    // (1) TLC-generated small public inputs with their seed terms
    let input = std::fs::read_to_string(&args[0]).unwrap();
    for inst in 0..2u64 {
        let env = Env::new(rng.next() ^ inst);
        let mut part = Partition::default();
        for line in input.lines() {
            if line.trim().is_empty() { continue; }
            let c: Value = serde_json::from_str(line).unwrap();
            if c["stone6"].as_bool().unwrap() != STONE6 { continue; }
            let p = &c["pi"];
            let pairs = |v: &Value| -> Vec<(Felt, Felt)> { v.as_array().unwrap().iter().map(|x| (eval(&x[0], &env), eval(&x[1], &env))).collect() };
            let pi = PublicInput {
                log_n_steps: eval(&p["logSteps"], &env), range_check_min: eval(&p["rcMin"], &env), range_check_max: eval(&p["rcMax"], &env), layout: eval(&p["layout"], &env),
                dynamic_params: None,
                segments: pairs(&p["segs"]).into_iter().map(|(a, b)| SegmentInfo { begin_addr: a, stop_ptr: b }).collect(),
                padding_addr: eval(&p["padAddr"], &env), padding_value: eval(&p["padVal"], &env),
                main_page: Page(pairs(&p["page"]).into_iter().map(|(a, b)| AddrValue { address: a, value: b }).collect()),
                continuous_page_headers: p["headers"].as_array().unwrap().iter().map(|x| ContinuousPageHeader { start_address: eval(&x[0], &env), size: eval(&x[1], &env), hash: eval(&x[2], &env), prod: Felt::from(77) }).collect(),
            };
            let nvf = eval(&c["nvf"], &env);
            cases += 1;
            let got = guarded(|| pi.get_hash(nvf));
            let want = eval(&c["seed"], &env);
            let mut why = None;
            match got {
                Ok(g) => { if g != want { why = Some("get_hash differs from the spec's SeedTerm".to_string()); } else if let Some(e) = part.observe(&c["seed"], g) { why = Some(e); } }
                Err(p) => why = Some(format!("panic {p}")),
            }
            if let Some(w) = why { bad += 1; out.line(&json!({"ok": false, "kind": "term", "why": w, "case": c})); }
        }
    }
    // (2) real public inputs: every field perturbed once; all seeds must be pairwise distinct and equal the reference
    for (layout, proof) in bases() {
        let pi = &proof.public_input;
        let nvf = proof.config.n_verifier_friendly_commitment_layers;
        let mut variants: Vec<(String, PublicInput, Felt)> = vec![("base".into(), clone_pi(pi), nvf)];
        let mut add = |name: String, f: &dyn Fn(&mut PublicInput)| { let mut q = clone_pi(pi); f(&mut q); variants.push((name, q, nvf)); };
        add("log_n_steps+1".into(), &|q| q.log_n_steps += Felt::ONE);
        add("range_check_min+1".into(), &|q| q.range_check_min += Felt::ONE);
        add("range_check_max+1".into(), &|q| q.range_check_max += Felt::ONE);
        add("layout+1".into(), &|q| q.layout += Felt::ONE);
        add("padding_addr+1".into(), &|q| q.padding_addr += Felt::ONE);
        add("padding_value+1".into(), &|q| q.padding_value += Felt::ONE);
        for i in 0..pi.segments.len() {
            add(format!("segments[{i}].begin_addr+1"), &|q| q.segments[i].begin_addr += Felt::ONE);
            add(format!("segments[{i}].stop_ptr+1"), &|q| q.segments[i].stop_ptr += Felt::ONE);
        }
        // bounds beyond the machine word are still different numbers
        let t64 = Felt::TWO.pow(64u64);
        for i in 0..pi.segments.len() {
            add(format!("segments[{i}].stop_ptr=2^64-1"), &|q| q.segments[i].stop_ptr = t64 - Felt::ONE);
            add(format!("segments[{i}].stop_ptr=2^64+3"), &|q| q.segments[i].stop_ptr = t64 + Felt::THREE);
            add(format!("segments[{i}].stop_ptr=2^64+7"), &|q| q.segments[i].stop_ptr = t64 + Felt::from(7));
            add(format!("segments[{i}].begin_addr=2^200"), &|q| q.segments[i].begin_addr = Felt::TWO.pow(200u64));
            add(format!("segments[{i}].begin_addr=2^64"), &|q| q.segments[i].begin_addr = t64);
        }
        add("segments:drop-last".into(), &|q| { q.segments.pop(); });
        let n = pi.main_page.len();
        let idxs: Vec<usize> = (0..n).collect();
        for &i in &idxs {
            add(format!("main_page[{i}].address+1"), &|q| q.main_page.0[i].address += Felt::ONE);
            add(format!("main_page[{i}].value+1"), &|q| q.main_page.0[i].value += Felt::ONE);
            add(format!("main_page:delete[{i}]"), &|q| { q.main_page.0.remove(i); });
            add(format!("main_page:insert-copy[{i}]"), &|q| { let c = AddrValue { address: q.main_page.0[i].address, value: q.main_page.0[i].value }; q.main_page.0.insert(i, c); });
            if i + 1 < n { add(format!("main_page:transpose[{i}]"), &|q| q.main_page.0.swap(i, i + 1)); }
            if i + 1 < n { add(format!("main_page:swap-values[{i}]"), &|q| { let a = q.main_page.0[i].value; q.main_page.0[i].value = q.main_page.0[i + 1].value; q.main_page.0[i + 1].value = a; }); }
        }
        add("main_page:address<->value[0]".into(), &|q| { let c = &mut q.main_page.0[0]; std::mem::swap(&mut c.address, &mut c.value); });
        let hdr = |a: u64, b: u64, c: u64| ContinuousPageHeader { start_address: Felt::from(a), size: Felt::from(b), hash: Felt::from(c), prod: Felt::from(5) };
        add("headers:+(7,8,9)".into(), &|q| q.continuous_page_headers.push(hdr(7, 8, 9)));
        add("headers:+(8,8,9)".into(), &|q| q.continuous_page_headers.push(hdr(8, 8, 9)));
        add("headers:+(7,9,9)".into(), &|q| q.continuous_page_headers.push(hdr(7, 9, 9)));
        add("headers:+(7,8,10)".into(), &|q| q.continuous_page_headers.push(hdr(7, 8, 10)));
        // boundary values: a zero-size page, a zero start address, a zero hash are still declared pages
        add("headers:+(7,0,9)".into(), &|q| q.continuous_page_headers.push(hdr(7, 0, 9)));
        add("headers:+(0,8,9)".into(), &|q| q.continuous_page_headers.push(hdr(0, 8, 9)));
        add("headers:+(7,8,0)".into(), &|q| q.continuous_page_headers.push(hdr(7, 8, 0)));
        add("headers:+(0,0,0)".into(), &|q| q.continuous_page_headers.push(hdr(0, 0, 0)));
        add("headers:+(7,8,9),(7,0,9)".into(), &|q| { q.continuous_page_headers.push(hdr(7, 8, 9)); q.continuous_page_headers.push(hdr(7, 0, 9)); });
        add("headers:+(7,0,9),(7,8,9)".into(), &|q| { q.continuous_page_headers.push(hdr(7, 0, 9)); q.continuous_page_headers.push(hdr(7, 8, 9)); });
        add("headers:+(7,8,9),(7,8,9)".into(), &|q| { q.continuous_page_headers.push(hdr(7, 8, 9)); q.continuous_page_headers.push(hdr(7, 8, 9)); });
        if let Some(dp) = &pi.dynamic_params {
            let v: Vec<usize> = dp.clone().into();
            for k in 0..v.len() {
                add(format!("dynamic_params[{k}]+1"), &|q| { let mut w: Vec<usize> = q.dynamic_params.clone().unwrap().into(); w[k] += 1; q.dynamic_params = Some(swiftness_air::dynamic::DynamicParams::from(w)); });
                // same low 32 bits (the proof file stores 32-bit parameters; the statement is over the full value)
                add(format!("dynamic_params[{k}]+2^32"), &|q| { let mut w: Vec<usize> = q.dynamic_params.clone().unwrap().into(); w[k] += 1usize << 32; q.dynamic_params = Some(swiftness_air::dynamic::DynamicParams::from(w)); });
            }
        }
        // the seed is a function of the value, not of the object: edits made in place after a first call must be seen
        {
            let mut q = clone_pi(pi);
            let _ = guarded(|| q.get_hash(nvf));
            for step in 0..3 {
                let n = q.main_page.len();
                match step { 0 => q.main_page.0[n / 2].value += Felt::ONE, 1 => q.main_page.0[0].address += Felt::from(3), _ => q.main_page.0.swap(1, 2) }
                cases += 1;
                let got = guarded(|| q.get_hash(nvf));
                let want = seed_ref(&q, nvf);
                if got.as_ref().ok() != Some(&want) {
                    bad += 1;
                    out.line(&json!({"ok": false, "kind": "real", "why": format!("get_hash after an in-place edit of the main page (step {step}) differs from the reference SeedTerm evaluation of the edited input"), "case": {"layout": layout, "variant": format!("in-place:{step}")}}));
                }
            }
        }
        variants.push(("nvf+1".into(), clone_pi(pi), nvf + Felt::ONE));
        let mut seen: std::collections::HashMap<Felt, String> = Default::default();
        // a perturbation that happens to leave the input unchanged (e.g. swapping two equal values) is not a different input
        let ser = |q: &PublicInput, nv: &Felt| -> String { format!("{}|{:#x}", serde_json::to_string(q).unwrap(), nv) };
        let mut distinct: std::collections::HashSet<String> = Default::default();
        variants.retain(|(_, q, nv)| distinct.insert(ser(q, nv)));
        let computed = par_map(&variants, n_threads(), |_, (_, q, nv)| (guarded(|| q.get_hash(*nv)), seed_ref(q, *nv)));
        for ((name, _q, _nv), (got, reference)) in variants.iter().zip(computed.into_iter()) {
            cases += 1;
            let desc = json!({"layout": layout, "variant": name});
            match got {
                Err(p) => { bad += 1; out.line(&json!({"ok": false, "kind": "real", "why": format!("get_hash panicked: {p}"), "case": desc})); }
                Ok(g) => {
                    if g != reference { bad += 1; out.line(&json!({"ok": false, "kind": "real", "why": "get_hash differs from the reference SeedTerm evaluation", "case": desc})); }
                    // nvf is part of the statement only under Stone 6
                    let expect_same_as_base = name == "nvf+1" && !STONE6;
                    if let Some(other) = seen.get(&g) {
                        if !(expect_same_as_base && other == "base") { bad += 1; out.line(&json!({"ok": false, "kind": "real", "why": format!("two different public inputs have the same seed: {name} and {other}"), "case": desc})); }
                    } else if expect_same_as_base { bad += 1; out.line(&json!({"ok": false, "kind": "real", "why": "seed depends on the friendly-layer count under Stone 5", "case": desc})); }
                    seen.insert(g, name.clone());
                }
            }
        }
    }
    out.line(&json!({"summary": true, "cases": cases, "bad": bad}));
}

// ------------------------------------------------------------ C14
struct Builtin { seg: usize, cells: u64, row_ratio: u64 }
fn layout_table(layout: &str, pi: &PublicInput) -> (u64, Vec<Builtin>) {
    // (trace rows per step, builtins) -- Cairo layout definitions: ratio * 16 rows; cells per instance of each builtin
    let b = |seg, cells, row_ratio| Builtin { seg, cells, row_ratio };
    match layout {
        "dex" | "small" => (16, vec![b(3, 3, 128), b(4, 1, 128), b(5, 2, 8192)]),
        "recursive" => (16, vec![b(3, 3, 2048), b(4, 1, 128), b(5, 5, 128)]),
        "recursive_with_poseidon" => (16, vec![b(3, 3, 4096), b(4, 1, 256), b(5, 5, 256), b(6, 6, 1024)]),
        "starknet" => (16, vec![b(3, 3, 512), b(4, 1, 256), b(5, 2, 32768), b(6, 5, 1024), b(7, 7, 16384), b(8, 6, 512)]),
        "starknet_with_keccak" => (16, vec![b(3, 3, 512), b(4, 1, 256), b(5, 2, 32768), b(6, 5, 1024), b(7, 7, 16384), b(8, 16, 32768), b(9, 6, 512)]),
        "dynamic" => {
            let dp = pi.dynamic_params.as_ref().expect("dynamic params");
            (16 * dp.cpu_component_step as u64, vec![b(3, 3, dp.pedersen_builtin_row_ratio as u64), b(4, 1, dp.range_check_builtin_row_ratio as u64)])
        }
        o => panic!("layout {o}"),
    }
}
fn validate_g<L: LayoutTrait>(pi: &PublicInput, d: &StarkDomains) -> Result<bool, String> { guarded(|| L::validate_public_input(pi, d).is_ok()) }
fn verify_g<L: LayoutTrait>(pi: &PublicInput) -> Result<Option<(Felt, Felt)>, String> { guarded(|| L::verify_public_input(pi).ok()) }
fn chain(vals: &[Felt]) -> Felt { let h = vals.iter().fold(Felt::ZERO, |a, e| pedersen_hash(&a, e)); pedersen_hash(&h, &Felt::from(vals.len() as u64)) }

/// args: validate <cases.ndjson> <out.ndjson>
pub fn run_validate(args: &[String]) {
    let input = std::fs::read_to_string(&args[0]).unwrap();
    let cases: Vec<Value> = input.lines().filter(|l| !l.trim().is_empty()).map(|l| serde_json::from_str(l).unwrap()).collect();
    let mut out = Out::file(&args[1]);
    let (mut n, mut bad, mut panics) = (0u64, 0u64, 0u64);
    let mut done_dev = std::collections::BTreeSet::new();
    let mut done_page = std::collections::BTreeSet::new();
    for (layout, proof) in bases() {
        let pi0 = &proof.public_input;
        let (cpu_rows, builtins) = layout_table(&layout, pi0);
        let log_cpu = cpu_rows.trailing_zeros() as u64;
        let lc = proof.config.log_n_cosets;
        let lt0 = to_u64(&proof.config.log_trace_domain_size).unwrap();
        let multi = builtins.iter().position(|b| b.cells > 1).unwrap();
        let single = builtins.iter().position(|b| b.cells == 1).unwrap();
        for c in &cases {
            // ---- validation deviations
            let dev = &c["dev"];
            let dkey = format!("{layout}:{dev}");
            // a usage deviation of the model's multi-cell (1) / single-cell (2) builtin is applied to every builtin of that class
            // model builtin 3 = a builtin the instance has switched off (dynamic layout only): row ratio left set, one instance claimed
            if dev[0] == "usage" && dev[1] == 3 {
                if layout != "dynamic" || !done_dev.insert(dkey.clone()) { } else {
                    let dp0 = pi0.dynamic_params.clone().expect("dynamic params");
                    type Setter = fn(&mut swiftness_air::dynamic::DynamicParams, usize);
                    let table: Vec<(&str, usize, u64, usize, Setter)> = vec![
                        ("pedersen", 3, 3, dp0.uses_pedersen_builtin, |d, r| d.pedersen_builtin_row_ratio = r), ("range_check", 4, 1, dp0.uses_range_check_builtin, |d, r| d.range_check_builtin_row_ratio = r),
                        ("ecdsa", 5, 2, dp0.uses_ecdsa_builtin, |d, r| d.ecdsa_builtin_row_ratio = r), ("bitwise", 6, 5, dp0.uses_bitwise_builtin, |d, r| d.bitwise_row_ratio = r),
                        ("ec_op", 7, 7, dp0.uses_ec_op_builtin, |d, r| d.ec_op_builtin_row_ratio = r), ("keccak", 8, 16, dp0.uses_keccak_builtin, |d, r| d.keccak_row_ratio = r),
                        ("poseidon", 9, 6, dp0.uses_poseidon_builtin, |d, r| d.poseidon_row_ratio = r), ("range_check96", 10, 1, dp0.uses_range_check96_builtin, |d, r| d.range_check96_builtin_row_ratio = r),
                        ("add_mod", 11, 7, dp0.uses_add_mod_builtin, |d, r| d.add_mod_row_ratio = r), ("mul_mod", 12, 7, dp0.uses_mul_mod_builtin, |d, r| d.mul_mod_row_ratio = r)];
                    for (name, seg, cells, uses, set_ratio) in table {
                        if uses != 0 { continue; }
                        for ratio in [64usize, 1usize << lt0.min(40)] {
                            let mut pi = clone_pi(pi0);
                            let mut dp = dp0.clone();
                            if dev[2] == "1inst" { set_ratio(&mut dp, ratio); pi.segments[seg].stop_ptr = pi.segments[seg].begin_addr + Felt::from(cells); }
                            pi.dynamic_params = Some(dp);
                            n += 1;
                            let doms = StarkDomains::new(Felt::from(lt0), lc);
                            let expect = c["valid"].as_bool().unwrap();
                            match real::dispatch!(layout.as_str(), validate_g, &pi, &doms) {
                                Ok(got) => if got != expect { bad += 1; out.line(&json!({"ok": false, "kind": "validate", "layout": layout, "dev": dev, "builtin_segment": seg, "why": format!("ValidPI = {expect} but validate_public_input accepted = {got}: builtin {name} is switched off (row ratio set to {ratio}), usage {}", dev[2])})); },
                                Err(p) => { panics += 1; if expect { bad += 1; } out.line(&json!({"ok": false, "kind": "panic", "layout": layout, "dev": dev, "where": p, "why": "validate_public_input panicked"})); }
                            }
                        }
                    }
                }
            }
            let targets: Vec<Option<usize>> = if dev[0] == "usage" && dev[1] == 3 { vec![] }
            else if dev[0] == "simple" && dev[2] == "tinyTrace,usage=1inst" {
                // every builtin whose row ratio exceeds the tiny trace, one at a time: the trace holds no instance of it
                builtins.iter().enumerate().filter(|(_, b)| b.row_ratio > (1 << log_cpu)).map(|(i, _)| Some(i)).collect()
            } else if dev[0] == "usage" {
                builtins.iter().enumerate().filter(|(_, b)| (b.cells > 1) == (dev[1] == 1)).map(|(i, _)| Some(i)).collect()
            } else { vec![None] };
            if done_dev.insert(dkey.clone()) { for target in targets {
                let mut pi = clone_pi(pi0);
                let mut lt = lt0;
                let zero_usage = |pi: &mut PublicInput| { for b in &builtins { pi.segments[b.seg].stop_ptr = pi.segments[b.seg].begin_addr; } };
                let mut applicable = true;
                // the dynamic layout adds parameter-dependent requirements (divisibility of the trace length by every row ratio,
                // memory / range-check unit counts) that ValidPI does not model: deviations that change the trace size are not applied to it
                if layout == "dynamic" && dev[0] == "simple" && (dev[2] == "logSteps=max-1,consistent" || dev[2].as_str().unwrap().starts_with("tinyTrace")) { applicable = false; }
                if !applicable { continue; }
                let _ = (multi, single);
                if dev[0] == "simple" {
                    match dev[2].as_str().unwrap() {
                        "none" => {}
                        "logSteps+1" => pi.log_n_steps += Felt::ONE,
                        // (p - 1) / 10 is the multiplicative order of 2 modulo the STARK prime: 2^(k + ord) = 2^k in the field
                        "logSteps+ord2" => pi.log_n_steps += (Felt::ZERO - Felt::ONE).field_div(&starknet_core::types::NonZeroFelt::try_from(Felt::from(10)).unwrap()),
                        "logTrace+1" => lt += 1,
                        "logSteps=max-1,consistent" => { pi.log_n_steps = Felt::from(79); lt = 79 + log_cpu; zero_usage(&mut pi); }
                        "logSteps=max,consistent" => { pi.log_n_steps = Felt::from(80); lt = 80 + log_cpu; zero_usage(&mut pi); }
                        "segments-1" => { pi.segments.pop(); }
                        "segments+1" => pi.segments.push(SegmentInfo { begin_addr: Felt::from(5), stop_ptr: Felt::from(5) }),
                        "layoutCode+1" => pi.layout += Felt::ONE,
                        "rc:min>max" => pi.range_check_min = pi.range_check_max + Felt::ONE,
                        "rc:min=max" => pi.range_check_min = pi.range_check_max,
                        "rc:max=limit" => pi.range_check_max = Felt::from(65535),
                        "rc:max=limit+1" => pi.range_check_max = Felt::from(65536),
                        "rc:min=-1" => pi.range_check_min = Felt::ZERO - Felt::ONE,
                        "tinyTrace,usage=0" => { pi.log_n_steps = Felt::ZERO; lt = log_cpu; zero_usage(&mut pi); }
                        "tinyTrace,usage=1inst" => { pi.log_n_steps = Felt::ZERO; lt = log_cpu; zero_usage(&mut pi);
                            // a builtin whose row ratio exceeds the tiny trace: the trace holds no instance
                            if let Some(i) = target { let b = &builtins[i]; pi.segments[b.seg].stop_ptr = pi.segments[b.seg].begin_addr + Felt::from(b.cells); } else { applicable = false; } }
                        o => panic!("dev {o}"),
                    }
                } else {
                    let b = &builtins[target.unwrap()];
                    let copies = (1u128 << lt0) / b.row_ratio as u128;
                    let cells = b.cells as u128;
                    let begin = pi.segments[b.seg].begin_addr;
                    let v: Felt = match dev[2].as_str().unwrap() {
                        "0" => Felt::ZERO, "1inst" => Felt::from(cells), "1inst+1cell" => Felt::from(cells + 1), "copies" => Felt::from(copies * cells),
                        "copies+1" => Felt::from((copies + 1) * cells), "-1cell" => Felt::ZERO - Felt::ONE, "-1inst" => Felt::ZERO - Felt::from(cells), o => panic!("usage {o}") };
                    pi.segments[b.seg].stop_ptr = begin + v;
                }
                if applicable {
                    n += 1;
                    let doms = StarkDomains::new(Felt::from(lt), lc);
                    let r = real::dispatch!(layout.as_str(), validate_g, &pi, &doms);
                    let expect = c["valid"].as_bool().unwrap();
                    match r {
                        Ok(got) => if got != expect { bad += 1; out.line(&json!({"ok": false, "kind": "validate", "layout": layout, "dev": dev, "builtin_segment": target.map(|t| builtins[t].seg), "why": format!("ValidPI = {expect} but validate_public_input accepted = {got} (builtin segment {:?})", target.map(|t| builtins[t].seg))})); },
                        Err(p) => { panics += 1; if expect { bad += 1; } out.line(&json!({"ok": false, "kind": "panic", "layout": layout, "dev": dev, "where": p, "why": "validate_public_input panicked"})); }
                    }
                }
            } }
            // ---- main-page perturbations
            let pd = c["pagedev"].as_str().unwrap();
            let pkey = format!("{layout}:{pd}");
            if !done_page.insert(pkey) { continue; }
            let mut pi = clone_pi(pi0);
            let initial_ap = to_u64(&pi.segments[1].begin_addr).unwrap();
            let plen = (initial_ap - 3) as usize;
            let (ob, os) = (to_u64(&pi.segments[2].begin_addr).unwrap(), to_u64(&pi.segments[2].stop_ptr).unwrap());
            let olen = (os - ob) as usize;
            let eo = pd.starts_with("eo:");
            if eo {
                // empty output segment: the page carries no output cells
                pi.segments[2].stop_ptr = pi.segments[2].begin_addr;
                let keep = pi.main_page.len() - olen;
                pi.main_page.0.truncate(keep);
            }
            let (olen, npage) = if eo { (0usize, pi.main_page.len()) } else { (olen, pi.main_page.len()) };
            let page = &mut pi.main_page.0;
            match pd {
                "eo:none" => {}
                "eo:keep-1" => page.truncate(1),
                "eo:empty" => page.clear(),
                "eo:drop-last" => { if npage > plen { page.pop(); } }
                "eo:drop-program-tail" => page.truncate(plen - 1),
                "eo:addr+1@program" => page[1].address += Felt::from(3),
                "none" => {}
                "shift-all" => for cell in page.iter_mut() { cell.address += Felt::from(1000); },
                "addr+1@program" => page[1].address += Felt::from(3),
                "addr+1@output" => page[npage - 1].address += Felt::ONE,
                "drop-first" => { page.remove(0); }
                "drop-last" => { page.pop(); }
                "drop-program-cell" => { page.remove(1); }
                "keep-1" => page.truncate(1),
                "empty" => page.clear(),
                "swap-program-cells" => page.swap(0, 1),
                "append-after-output" => page.push(AddrValue { address: Felt::from(os + 10), value: Felt::from(16) }),
                "insert-middle" => page.insert(plen + 1, AddrValue { address: Felt::from(initial_ap + 5), value: Felt::from(99) }),
                "value+1@program" => page[1].value += Felt::ONE,
                "seg:relocate+1" | "seg:relocate+1,stop-kept" => { page.remove(0); }
                o if o.starts_with("seg:") => {}
                o => panic!("pagedev {o}"),
            }
            {
                // segment declarations: program = segments[0], execution = segments[1], output = segments[2]
                let max_addr = Felt::TWO.pow(64u64) - Felt::ONE;
                let sg = &mut pi.segments;
                match pd {
                    "seg:relocate+1" => { sg[0].begin_addr += Felt::ONE; sg[0].stop_ptr += Felt::ONE; }
                    "seg:relocate+1,stop-kept" | "seg:program.begin+1" => sg[0].begin_addr += Felt::ONE,
                    "seg:program.stop+1" => sg[0].stop_ptr += Felt::ONE,
                    "seg:program.stop-1" => sg[0].stop_ptr -= Felt::ONE,
                    "seg:initial_ap=max" => sg[1].begin_addr = max_addr,
                    "seg:final_ap=max" => sg[1].stop_ptr = max_addr,
                    "seg:final_ap=max-1" => sg[1].stop_ptr = max_addr - Felt::ONE,
                    "seg:output.begin-1" => sg[2].begin_addr -= Felt::ONE,
                    "seg:output.stop+1" => sg[2].stop_ptr += Felt::ONE,
                    "seg:output.stop-1" => sg[2].stop_ptr -= Felt::ONE,
                    "seg:execution.begin+1" => sg[1].begin_addr += Felt::ONE,
                    "seg:execution.begin-1" => sg[1].begin_addr -= Felt::ONE,
                    _ => {}
                }
                if pd == "seg:header" { pi.continuous_page_headers.push(ContinuousPageHeader { start_address: Felt::from(7), size: Felt::from(1), hash: Felt::from(9), prod: Felt::from(5) }); }
            }
            n += 1;
            let base_vals: Vec<Felt> = pi0.main_page.iter().map(|c| c.value).collect();
            let base_hashes = if eo { (chain(&base_vals[..plen]), chain(&[])) } else { (chain(&base_vals[..plen]), chain(&base_vals[npage - olen..])) };
            let r = real::dispatch!(layout.as_str(), verify_g, &pi);
            let either = pd == "swap-program-cells" || pd == "append-after-output";
            let expect_ok = c["pageok"].as_bool().unwrap();
            match r {
                Err(p) => { panics += 1; if expect_ok { bad += 1; } out.line(&json!({"ok": false, "kind": "panic", "layout": layout, "pagedev": pd, "where": p, "why": "verify_public_input panicked"})); }
                Ok(None) => if expect_ok { bad += 1; out.line(&json!({"ok": false, "kind": "verify", "layout": layout, "pagedev": pd, "why": "a main page with the cells at the right addresses was rejected"})); },
                Ok(Some(h)) => {
                    let want = if pd == "seg:execution.begin-1" { (chain(&base_vals[..plen - 1]), base_hashes.1) } else if pd == "value+1@program" { let mut v = base_vals.clone(); v[1] += Felt::ONE; (chain(&v[..plen]), base_hashes.1) } else { base_hashes };
                    if !expect_ok && !(either && h == base_hashes) {
                        bad += 1;
                        out.line(&json!({"ok": false, "kind": "verify", "layout": layout, "pagedev": pd, "why": format!("main page perturbed by '{pd}' was hashed positionally instead of rejected (returned {:#x}, {:#x})", h.0, h.1)}));
                    } else if expect_ok && h != want {
                        bad += 1;
                        out.line(&json!({"ok": false, "kind": "verify", "layout": layout, "pagedev": pd, "why": "returned hashes are not the Pedersen chains of the program / output cells"}));
                    }
                }
            }
        }
    }
    out.line(&json!({"summary": true, "cases": n, "bad": bad, "panics": panics}));
}
