//! C10: drive generate_queries / queries_to_points on real transcripts and record traces.
use crate::cmd_vector::annotate;
use crate::util::*;
use serde_json::json;
use starknet_crypto::Felt;
use swiftness_air::domains::StarkDomains;
use swiftness_stark::queries::{generate_queries, queries_to_points};
use swiftness_transcript::{transcript::Transcript, verif};

/// args: <trace.ndjson> <cases_per_size>
pub fn run(args: &[String]) {
    let mut t = Out::file(&args[0]);
    let per: u64 = args[1].parse().unwrap();
    let mut rng = Rng::from_env(0xC10);
    let mut case = 0u64;
    for log in 1..=64u64 {
        for k in 0..per {
            // counts: small, close to and above the domain size (forcing collisions), and up to 48
            let size_small = if log < 7 { 1u64 << log } else { 64 };
            let n = match k % 6 { 0 => 1, 1 => 2 + rng.below(8), 2 => size_small.min(48), 3 => (size_small + 1 + rng.below(4)).min(60), 4 => 48, _ => 1 + rng.below(48) };
            let seed = rng.felt();
            // the transcript may already have been squeezed when the queries are drawn: the samples are H(digest, counter + i)
            let c0: u64 = match (log + k) % 4 { 0 => 0, 1 => 1, 2 => 3 + rng.below(5), _ => 50 + rng.below(20) };
            let mut tr = Transcript::new_with_counter(seed, Felt::from(c0));
            let bound = Felt::TWO.pow(log);
            let _ = verif::take();
            t.line(&json!({"ev":"reset","case":case,"digest":hex(&seed),"counter":hex(&Felt::from(c0)),"log":log,"n":n}));
            case += 1;
            let r = guarded(|| generate_queries(&mut tr, Felt::from(n), bound));
            for e in &verif::take() { t.line(&annotate(e)); }
            let q = match r {
                Ok(q) => { t.line(&json!({"ev":"queries.ret","out":hexs(q.iter()),"counter_after":hex(tr.counter())})); q }
                Err(p) => { t.line(&json!({"ev":"queries.panic","where":p})); continue; }
            };
            // split log into trace/coset parts
            let c = 1 + rng.below(log.min(4));
            let dom = match guarded(|| StarkDomains::new(Felt::from(log - c.min(log)), Felt::from(c.min(log)))) {
                Ok(d) => d,
                Err(p) => { t.line(&json!({"ev":"points.panic","where":p})); continue; }
            };
            let r = guarded(|| queries_to_points(&q, &dom));
            for e in &verif::take() { t.line(&annotate(e)); }
            match r {
                Ok(p) => t.line(&json!({"ev":"points.ret","pts":hexs(p.iter())})),
                Err(p) => t.line(&json!({"ev":"points.panic","where":p})),
            }
        }
    }
}
