//! A tiny AIR ("Toy" layout) with a complete honest STARK prover and adversarial prover strategies,
//! driving the *generic* verifier code (`StarkProof::verify::<Toy>`) under any configuration.
//!
//! Trace: column a with a[i+1] = a[i]^2, a[0] = v0 (public, carried in padding_value);
//! interaction column b with b[i+1] = b[i] * (a[i] + gamma), b[0] = 1.
//! Mask: a(z), a(gz), b(z), b(gz); composition degree 2 (H = H0(x^2) + x H1(x^2)).
use crate::friprov::tcfg;
use crate::cmd_table::twit;
use crate::merkle::{auth_path, commit_table};
use crate::util::*;
use starknet_crypto::Felt;
use swiftness_air::{domains::StarkDomains, layout::*, public_memory::PublicInput, trace, types::{AddrValue, Page}};
use swiftness_commitment::table;
use swiftness_fri::{config::Config as FriConfig, types as ft};
use swiftness_stark::{config::StarkConfig, types::*};
use swiftness_transcript::transcript::Transcript;

pub struct Toy;
pub struct ToyIE { pub gamma: Felt }

fn constraints(mask: &[Felt], c: &[Felt], x: &Felt, n: &Felt, g: &Felt, v0: Felt, gamma: Felt) -> Felt {
    let (a, a1, b, b1) = (mask[0], mask[1], mask[2], mask[3]);
    let zn = x.pow_felt(n) - Felt::ONE;
    let last = *x - g.pow_felt(&(*n - Felt::ONE));
    let first = *x - Felt::ONE;
    c[0] * (a1 - a * a) * last * inv(zn) + c[1] * (a - v0) * inv(first) + c[2] * (b1 - b * (a + gamma)) * last * inv(zn) + c[3] * (b - Felt::ONE) * inv(first)
}
impl GenericLayoutTrait for Toy {
    fn get_num_columns_first(_: &PublicInput) -> Option<usize> { Some(1) }
    fn get_num_columns_second(_: &PublicInput) -> Option<usize> { Some(1) }
}
impl LayoutTrait for Toy {
    type InteractionElements = ToyIE;
    const CONSTRAINT_DEGREE: usize = 2;
    const N_CONSTRAINTS: usize = 4;
    const MASK_SIZE: usize = 4;
    fn eval_composition_polynomial(ie: &ToyIE, pi: &PublicInput, mask: &[Felt], c: &[Felt], point: &Felt, n: &Felt, g: &Felt) -> Result<Felt, CompositionPolyEvalError> {
        if mask.len() < 4 || c.len() < 4 { return Err(CompositionPolyEvalError::ValueOutOfRange); }
        Ok(constraints(mask, c, point, n, g, pi.padding_value, ie.gamma))
    }
    fn eval_oods_polynomial(_: &PublicInput, col: &[Felt], oods: &[Felt], c: &[Felt], x: &Felt, z: &Felt, g: &Felt) -> Result<Felt, OodsPolyEvalError> {
        if col.len() < 4 || oods.len() < 6 || c.len() < 6 { return Err(OodsPolyEvalError::DynamicParamsMissing); }
        let z2 = *z * *z;
        Ok(c[0] * (col[0] - oods[0]) * inv(*x - *z) + c[1] * (col[0] - oods[1]) * inv(*x - *g * *z) + c[2] * (col[1] - oods[2]) * inv(*x - *z) + c[3] * (col[1] - oods[3]) * inv(*x - *g * *z)
            + c[4] * (col[2] - oods[4]) * inv(*x - z2) + c[5] * (col[3] - oods[5]) * inv(*x - z2))
    }
    fn validate_public_input(pi: &PublicInput, d: &StarkDomains) -> Result<(), PublicInputError> {
        if Felt::TWO.pow_felt(&pi.log_n_steps) != d.trace_domain_size { return Err(PublicInputError::TraceLengthInvalid); }
        if pi.layout != Felt::from(0x746f79u64) { return Err(PublicInputError::LayoutCodeInvalid); }
        Ok(())
    }
    fn traces_commit(t: &mut Transcript, u: &trace::UnsentCommitment, cfg: trace::config::Config) -> trace::Commitment<ToyIE> {
        let o = table::commit::table_commit(t, u.original, cfg.original);
        let ie = ToyIE { gamma: t.random_felt_to_prover() };
        let i = table::commit::table_commit(t, u.interaction, cfg.interaction);
        trace::Commitment { original: o, interaction_elements: ie, interaction: i }
    }
    fn traces_decommit(q: &[Felt], c: trace::Commitment<ToyIE>, d: trace::Decommitment, w: trace::Witness) -> Result<(), trace::decommit::Error> {
        Ok(table::decommit::table_decommit(c.original, q, d.original, w.original).and(table::decommit::table_decommit(c.interaction, q, d.interaction, w.interaction))?)
    }
    fn verify_public_input(pi: &PublicInput) -> Result<(Felt, Felt), PublicInputError> {
        Ok((pi.padding_value, starknet_crypto::pedersen_hash(&pi.padding_value, &pi.log_n_steps)))
    }
}

/// naive inverse DFT: values at shift * w^i (natural order) -> coefficients
pub fn interpolate(vals: &[Felt], w: Felt, shift: Felt) -> Vec<Felt> {
    let n = vals.len();
    let winv = inv(w);
    let ninv = inv(Felt::from(n as u64));
    let sinv = inv(shift);
    let mut wk = Felt::ONE; // winv^k
    let mut sk = Felt::ONE; // sinv^k
    let mut out = Vec::with_capacity(n);
    for _k in 0..n {
        let mut acc = Felt::ZERO;
        let mut p = Felt::ONE;
        for v in vals { acc += *v * p; p *= wk; }
        out.push(acc * ninv * sk);
        wk *= winv;
        sk *= sinv;
    }
    out
}

#[derive(Clone, Debug)]
pub struct Params {
    pub log_trace: u64,
    pub log_cosets: u64,
    pub steps: Vec<u64>,
    pub log_last: u64,
    pub nvf: u64,
    pub n_queries: u64,
    pub pow_bits: u8,
}
impl Params {
    pub fn random(rng: &mut Rng, max_log_trace: u64) -> Params {
        loop {
            let n_layers = 2 + rng.below(3) as usize;
            let steps: Vec<u64> = std::iter::once(0).chain((1..n_layers).map(|_| 1 + rng.below(3))).collect();
            let log_last = rng.below(2);
            let lt = steps.iter().sum::<u64>() + log_last;
            if lt > max_log_trace || lt < 2 { continue; }
            let lc = 1 + rng.below(3);
            return Params { log_trace: lt, log_cosets: lc, steps, log_last, nvf: rng.below(lt + lc + 3), n_queries: 1 + rng.below(6), pow_bits: 20 };
        }
    }
}

/// Prover strategies (see spec/Stark.tla).
#[derive(Clone, Copy, Debug, PartialEq)]
pub enum Strategy {
    Honest,
    /// invalid trace, everything else honest: OODS equation fails
    BadTrace,
    /// invalid trace; the claimed composition value is chosen so that the OODS equation holds
    BadTraceLieComp,
    /// invalid trace; one mask value is chosen so that the OODS equation holds
    BadTraceLieMask,
    /// invalid trace; two extra OODS entries carry a decoupled "claimed composition" (needs oods length check)
    BadTraceExtraOods,
    /// invalid trace; FRI layers committed for the zero function, first-layer sibling leaves chosen adaptively
    /// so that every fold lands on it (needs the inner-layer decommitment to be enforced)
    BadTraceAdaptiveLeaves,
    /// valid trace, but the inner FRI layers are not the folds of the previous layer
    GarbageFri,
}
impl Strategy {
    pub fn parse(s: &str) -> Strategy {
        match s { "honest" => Strategy::Honest, "badTrace" => Strategy::BadTrace, "lieComp" => Strategy::BadTraceLieComp, "lieMask" => Strategy::BadTraceLieMask,
            "extraOods" => Strategy::BadTraceExtraOods, "adaptiveLeaves" => Strategy::BadTraceAdaptiveLeaves, "garbageFri" => Strategy::GarbageFri, o => panic!("strategy {o}") }
    }
    pub fn trace_ok(&self) -> bool { matches!(self, Strategy::Honest | Strategy::GarbageFri) }
}

/// Σ_i v_i Σ_j (b * xinv / g_i)^j  (the interpolation formula; independent of crates/fri/src/formula.rs)
pub fn fold_def(v: &[Felt], k: u64, b: Felt, xinv: Felt) -> Felt {
    let g = root_of_unity(k);
    let mut acc = Felt::ZERO;
    for (i, vi) in v.iter().enumerate() {
        let gi = g.pow(bitrev(i as u64, k));
        let r = b * xinv * inv(gi);
        let mut s = Felt::ZERO;
        let mut p = Felt::ONE;
        for _ in 0..(1u64 << k) { s += p; p *= r; }
        acc += *vi * s;
    }
    acc
}

pub struct Proved {
    pub proof: StarkProof,
    pub security_bits: Felt,
    pub trace_ok: bool,
}

pub fn prove(p: &Params, v0: Felt, strat: Strategy) -> Proved {
    swiftness_transcript::verif::set_record(false);
    let r = prove_inner(p, v0, strat);
    swiftness_transcript::verif::set_record(true);
    let _ = swiftness_transcript::verif::take();
    r
}
fn prove_inner(p: &Params, v0: Felt, strat: Strategy) -> Proved {
    let (lt, lc) = (p.log_trace, p.log_cosets);
    let n = 1u64 << lt;
    let le = lt + lc;
    let e = 1u64 << le;
    let g = root_of_unity(lt);
    let w = root_of_unity(le);
    let xs: Vec<Felt> = (0..e).map(|i| Felt::THREE * w.pow(bitrev(i, le))).collect();
    let pi = PublicInput { log_n_steps: lt.into(), range_check_min: Felt::ZERO, range_check_max: Felt::ONE, layout: Felt::from(0x746f79u64), dynamic_params: None, segments: vec![],
        padding_addr: Felt::ONE, padding_value: v0, main_page: Page(vec![AddrValue { address: Felt::ONE, value: v0 }]), continuous_page_headers: vec![] };
    let mut tr = Transcript::new(pi.get_hash(p.nvf.into()));
    let cheat = !strat.trace_ok();
    // trace column a
    let mut a = vec![v0];
    for i in 1..n as usize { let prev = a[i - 1]; a.push(prev * prev); }
    if cheat { a[(n / 2) as usize] += Felt::ONE; }
    let ac = interpolate(&a, g, Felt::ONE);
    let a_lde: Vec<Felt> = xs.iter().map(|x| horner(&ac, *x)).collect();
    let t_a = commit_table(&a_lde.iter().map(|v| vec![*v]).collect::<Vec<_>>(), p.nvf);
    tr.read_felt_from_prover(&t_a.root());
    let gamma = tr.random_felt_to_prover();
    let mut b = vec![Felt::ONE];
    for i in 1..n as usize { let prev = b[i - 1]; b.push(prev * (a[i - 1] + gamma)); }
    let bc = interpolate(&b, g, Felt::ONE);
    let b_lde: Vec<Felt> = xs.iter().map(|x| horner(&bc, *x)).collect();
    let t_b = commit_table(&b_lde.iter().map(|v| vec![*v]).collect::<Vec<_>>(), p.nvf);
    tr.read_felt_from_prover(&t_b.root());
    let alpha = tr.random_felt_to_prover();
    let cc: Vec<Felt> = (0..4).map(|i| alpha.pow(i as u64)).collect();
    // composition on a coset of size 4n, shift 3
    let w4 = root_of_unity(lt + 2);
    let nf = Felt::from(n);
    let hvals: Vec<Felt> = (0..4 * n).map(|i| {
        let x = Felt::THREE * w4.pow(i);
        let m = [horner(&ac, x), horner(&ac, g * x), horner(&bc, x), horner(&bc, g * x)];
        constraints(&m, &cc, &x, &nf, &g, v0, gamma)
    }).collect();
    let hc = interpolate(&hvals, w4, Felt::THREE);
    let h0: Vec<Felt> = (0..n as usize).map(|i| hc[2 * i]).collect();
    let h1: Vec<Felt> = (0..n as usize).map(|i| hc[2 * i + 1]).collect();
    let comp_rows: Vec<Vec<Felt>> = xs.iter().map(|x| vec![horner(&h0, *x), horner(&h1, *x)]).collect();
    let t_c = commit_table(&comp_rows, p.nvf);
    tr.read_felt_from_prover(&t_c.root());
    let z = tr.random_felt_to_prover();
    let z2 = z * z;
    let mut oods = vec![horner(&ac, z), horner(&ac, g * z), horner(&bc, z), horner(&bc, g * z), horner(&h0, z2), horner(&h1, z2)];
    match strat {
        Strategy::BadTraceLieComp | Strategy::BadTraceAdaptiveLeaves => {
            let c = constraints(&oods[0..4], &cc, &z, &nf, &g, v0, gamma);
            oods[4] = c - z * oods[5];
        }
        Strategy::BadTraceLieMask => {
            let target = oods[4] + z * oods[5];
            let mut m0 = oods[0..4].to_vec(); m0[1] = Felt::ZERO;
            let mut m1 = oods[0..4].to_vec(); m1[1] = Felt::ONE;
            let c0 = constraints(&m0, &cc, &z, &nf, &g, v0, gamma);
            let c1 = constraints(&m1, &cc, &z, &nf, &g, v0, gamma);
            oods[1] = (target - c0) * inv(c1 - c0);
        }
        Strategy::BadTraceExtraOods => {
            let c = constraints(&oods[0..4], &cc, &z, &nf, &g, v0, gamma);
            oods.push(c);
            oods.push(Felt::ZERO);
        }
        _ => {}
    }
    tr.read_felt_vector_from_prover(&oods);
    let oa = tr.random_felt_to_prover();
    let oc: Vec<Felt> = (0..6).map(|i| oa.pow(i as u64)).collect();
    // DEEP evaluations on the evaluation domain, then coefficients in u = x/3
    let deep: Vec<Felt> = (0..e as usize).map(|i| Toy::eval_oods_polynomial(&pi, &[a_lde[i], b_lde[i], comp_rows[i][0], comp_rows[i][1]], &oods, &oc, &xs[i], &z, &g).unwrap()).collect();
    let nat: Vec<Felt> = (0..e).map(|k| deep[bitrev(k, le) as usize]).collect();
    let dc = interpolate(&nat, w, Felt::ONE);
    let deep_low = dc[n as usize..].iter().all(|c| *c == Felt::ZERO);
    // FRI commit phase
    let n_layers = p.steps.len();
    let fri_coefs: Vec<Felt> = match strat {
        Strategy::BadTraceAdaptiveLeaves => vec![Felt::ZERO; n as usize],
        _ => if deep_low { dc[..n as usize].to_vec() } else { dc.clone() },
    };
    // GarbageFri: the last inner layer (or the only one) is a random table instead of a fold
    let garbage = if strat == Strategy::GarbageFri { Some(if n_layers >= 3 { n_layers - 2 } else { 0 }) } else { None };
    let fp = crate::friprov::commit_ex(&mut tr, &fri_coefs, le, &p.steps, p.log_last, p.nvf, garbage);
    // PoW (independent implementation of the hash chain)
    let digest = tr.digest().to_bytes_be();
    let mut nonce = 0u64;
    while crate::cmd_pow::lz(&crate::cmd_pow::h2(&digest, p.pow_bits, nonce)) < p.pow_bits as u32 { nonce += 1; }
    tr.read_uint64_from_prover(nonce);
    // queries (prover-side derivation: sorted, de-duplicated samples)
    let mut qs: Vec<u64> = (0..p.n_queries).map(|_| {
        let r = tr.random_felt_to_prover();
        let low = u128::from_be_bytes(r.to_bytes_be()[16..].try_into().unwrap());
        (low % (e as u128)) as u64
    }).collect();
    qs.sort();
    qs.dedup();
    let mut fri_witness = fp.witness(&qs);
    if strat == Strategy::BadTraceAdaptiveLeaves {
        // first inner layer: the verifier's coset = true DEEP value(s) at the queries + our leaves; choose the first
        // free leaf of every coset so that the fold equals the committed (zero) next layer.
        let k = p.steps[1];
        let cs = 1u64 << k;
        let b0 = fp.eval_points[0];
        let mut cosets: Vec<u64> = qs.iter().map(|q| q / cs).collect();
        cosets.dedup();
        let mut leaves = Vec::new();
        for c in &cosets {
            let mut elems: Vec<Felt> = Vec::new();
            let mut free: Vec<usize> = Vec::new();
            for j in 0..cs {
                let ix = c * cs + j;
                if qs.binary_search(&ix).is_ok() { elems.push(deep[ix as usize]); } else { free.push(j as usize); elems.push(Felt::ZERO); }
            }
            let x0 = w.pow(bitrev(c * cs, le)); // u of the coset start
            let xinv = inv(x0);
            if let Some(&f) = free.first() {
                let f0 = fold_def(&elems, k, b0, xinv);
                let mut e1 = elems.clone(); e1[f] = Felt::ONE;
                let f1 = fold_def(&e1, k, b0, xinv);
                elems[f] = Felt::ZERO - f0 * inv(f1 - f0);
            }
            for j in free { leaves.push(elems[j]); }
        }
        fri_witness.layers[0].leaves = leaves;
    }
    let config = StarkConfig {
        traces: trace::config::Config { original: tcfg(1, le, p.nvf), interaction: tcfg(1, le, p.nvf) },
        composition: tcfg(2, le, p.nvf),
        fri: FriConfig { log_input_size: le.into(), n_layers: (n_layers as u64).into(), inner_layers: fp.config.inner_layers.clone(), fri_step_sizes: p.steps.iter().map(|s| Felt::from(*s)).collect(), log_last_layer_degree_bound: p.log_last.into() },
        proof_of_work: swiftness_pow::config::Config { n_bits: p.pow_bits },
        log_trace_domain_size: lt.into(), n_queries: p.n_queries.into(), log_n_cosets: lc.into(), n_verifier_friendly_commitment_layers: p.nvf.into(),
    };
    let security_bits = config.security_bits();
    let proof = StarkProof {
        config,
        public_input: pi,
        unsent_commitment: StarkUnsentCommitment {
            traces: trace::UnsentCommitment { original: t_a.root(), interaction: t_b.root() },
            composition: t_c.root(),
            oods_values: oods,
            fri: fp.unsent.clone(),
            proof_of_work: swiftness_pow::pow::UnsentCommitment { nonce },
        },
        witness: StarkWitness {
            traces_decommitment: trace::Decommitment {
                original: table::types::Decommitment { values: qs.iter().map(|q| a_lde[*q as usize]).collect() },
                interaction: table::types::Decommitment { values: qs.iter().map(|q| b_lde[*q as usize]).collect() },
            },
            traces_witness: trace::Witness { original: twit(auth_path(&t_a, &qs)), interaction: twit(auth_path(&t_b, &qs)) },
            composition_decommitment: table::types::Decommitment { values: qs.iter().flat_map(|q| comp_rows[*q as usize].clone()).collect() },
            composition_witness: twit(auth_path(&t_c, &qs)),
            fri_witness,
        },
    };
    Proved { proof, security_bits, trace_ok: !cheat }
}
