//! C05: replay TLC-generated table decommitment instances on the real table_decommit.
use crate::cmd_vector::annotate;
use crate::terms::{eval, evals, Env};
use crate::util::*;
use serde_json::{json, Value};
use starknet_crypto::Felt;
use swiftness_commitment::table::{config::Config as TConfig, decommit::table_decommit, types::{Commitment as TCommitment, Decommitment, Witness as TWitness}};
use swiftness_commitment::vector::{config::Config as VConfig, types::{Commitment as VCommitment, Witness as VWitness}};
use swiftness_transcript::verif;

pub fn table_commitment(ncols: u64, height: u64, nvf: u64, root: Felt) -> TCommitment {
    let v = VConfig { height: Felt::from(height), n_verifier_friendly_commitment_layers: Felt::from(nvf) };
    // model stand-in: c + k * 1000000 is the declared count c + 2^(64k)
    let n_columns = if ncols >= 1_000_000 { Felt::from(ncols % 1_000_000) + Felt::TWO.pow(64 * (ncols / 1_000_000)) } else { Felt::from(ncols) };
    TCommitment { config: TConfig { n_columns, vector: v.clone() }, vector_commitment: VCommitment { config: v, commitment_hash: root } }
}
pub fn twit(a: Vec<Felt>) -> TWitness { TWitness { vector: VWitness { authentications: a } } }

/// args: <cases.ndjson> <out.ndjson> [trace.ndjson [every]]
pub fn run(args: &[String]) {
    let input = std::fs::read_to_string(&args[0]).unwrap();
    let mut out = Out::file(&args[1]);
    let mut trace = args.get(2).map(|p| Out::file(p));
    let every: usize = args.get(3).map(|s| s.parse().unwrap()).unwrap_or(1);
    let mut rng = Rng::from_env(0xC05);
    let (mut cases, mut bad) = (0u64, 0u64);
    for inst in 0..2u64 {
        let env = Env::new(rng.next() ^ inst);
        for (i, line) in input.lines().enumerate() {
            if line.trim().is_empty() { continue; }
            let case: Value = serde_json::from_str(line).unwrap();
            cases += 1;
            let idx: Vec<Felt> = case["idx"].as_array().unwrap().iter().map(|x| Felt::from(x.as_u64().unwrap())).collect();
            let values = evals(&case["values"], &env);
            let auth = evals(&case["auth"], &env);
            let root = eval(&case["root"], &env);
            let com = table_commitment(case["ncols"].as_u64().unwrap(), case["height"].as_u64().unwrap(), case["nvf"].as_u64().unwrap(), root);
            let _ = verif::take();
            let r = guarded(|| table_decommit(com, &idx, Decommitment { values: values.clone() }, twit(auth.clone())));
            let events = verif::take();
            let expect_ok = case["expect"] == "ok";
            let (got_ok, detail) = match &r { Ok(Ok(())) => (true, "ok".to_string()), Ok(Err(e)) => (false, format!("{e:?}")), Err(p) => (false, format!("panic {p}")) };
            if got_ok != expect_ok {
                bad += 1;
                out.line(&json!({"i": i, "inst": inst, "ok": false, "why": format!("spec expects {} but real table_decommit returned {}", case["expect"], detail), "case": case}));
            }
            if let Some(t) = trace.as_mut() {
                if inst == 0 && i % every == 0 {
                    t.line(&json!({"ev":"reset","case":i}));
                    for e in annotate_all(&events) { t.line(&e); }
                    t.line(&json!({"ev":"tc.result","ok":got_ok}));
                }
            }
        }
    }
    out.line(&json!({"summary": true, "cases": cases, "bad": bad}));
}

/// Annotate a whole event list; `tc.rows` needs the preceding `tc.begin` to recompute row hashes.
pub fn annotate_all(events: &[String]) -> Vec<Value> {
    let mut out: Vec<Value> = Vec::with_capacity(events.len());
    let mut last_begin: Option<Value> = None;
    for e in events {
        let mut v = annotate(e);
        match v["ev"].as_str().unwrap_or("") {
            "tc.begin" => last_begin = Some(v.clone()),
            "tc.rows" => {
                if let Some(b) = &last_begin {
                    let mont = felts_of(&v["mont"]);
                    let hashes = felts_of(&v["hash"]);
                    let ncols = to_u64(&felt_of(&b["n_columns"])).unwrap_or(0) as usize;
                    let friendly = b["bottom_friendly"].as_bool().unwrap();
                    let r = crate::hashes::montgomery_r();
                    let rinv = inv(r);
                    let mut ok = ncols > 0 && mont.len() == ncols * hashes.len();
                    if ok {
                        for (i, h) in hashes.iter().enumerate() {
                            let row: Vec<Felt> = mont[i * ncols..(i + 1) * ncols].iter().map(|m| *m * rinv).collect();
                            if crate::merkle::row_hash(&row, friendly) != *h { ok = false; }
                        }
                    }
                    v["hok"] = json!(ok);
                }
            }
            _ => {}
        }
        out.push(v);
    }
    out
}
