//! Independent FRI prover in coefficient space (conventions: DESIGN.md Appendix A).
use crate::cmd_table::twit;
use crate::merkle::{auth_path, commit_table, Tree};
use crate::util::*;
use starknet_crypto::Felt;
use swiftness_commitment::{table::config::Config as TConfig, vector::config::Config as VConfig};
use swiftness_fri::{config::Config as FriConfig, types as ft};
use swiftness_transcript::transcript::Transcript;

pub fn tcfg(ncols: u64, height: u64, nvf: u64) -> TConfig {
    TConfig { n_columns: ncols.into(), vector: VConfig { height: height.into(), n_verifier_friendly_commitment_layers: nvf.into() } }
}

pub struct FriProof {
    pub config: FriConfig,
    pub unsent: ft::UnsentCommitment,
    pub layers: Vec<Vec<Felt>>,   // evaluations of every committed inner layer (bit-reversed order)
    pub trees: Vec<Tree>,
    pub eval_points: Vec<Felt>,
    pub log_n: u64,
    pub steps: Vec<u64>,
}

/// Evaluate `coefs` (in u) on the size-2^log domain in bit-reversed order.
pub fn eval_layer(coefs: &[Felt], log: u64) -> Vec<Felt> {
    let w = root_of_unity(log);
    (0..(1u64 << log)).map(|i| horner(coefs, w.pow(bitrev(i, log)))).collect()
}

/// Commit phase. `coefs`: polynomial in u = x/3 of the input layer; `transcript` is advanced exactly as the
/// verifier's fri_commit will do. The last layer is truncated / zero-padded to 2^log_last coefficients.
pub fn commit(tr: &mut Transcript, coefs: &[Felt], log_n: u64, steps: &[u64], log_last: u64, nvf: u64) -> FriProof {
    commit_ex(tr, coefs, log_n, steps, log_last, nvf, None)
}
/// `garbage_from = Some(i)`: inner layers with index >= i are committed as random tables instead of folds.
pub fn commit_ex(tr: &mut Transcript, coefs: &[Felt], log_n: u64, steps: &[u64], log_last: u64, nvf: u64, garbage_from: Option<usize>) -> FriProof {
    let n_layers = steps.len();
    let mut grng = Rng(0x6A4B ^ log_n);
    let mut cur: Vec<Felt> = coefs.to_vec();
    let mut log_m = log_n;
    let (mut layers, mut trees, mut roots, mut inner_cfg, mut evp) = (Vec::new(), Vec::new(), Vec::new(), Vec::new(), Vec::new());
    for i in 0..n_layers - 1 {
        let ev = if garbage_from.map(|g| i >= g).unwrap_or(false) { (0..(1u64 << log_m)).map(|_| grng.felt()).collect() } else { eval_layer(&cur, log_m) };
        let k = steps[i + 1];
        let nc = 1usize << k;
        let height = log_m - k;
        let t = commit_table(&ev.chunks(nc).map(|r| r.to_vec()).collect::<Vec<_>>(), nvf);
        roots.push(t.root());
        tr.read_felt_from_prover(&t.root());
        let b = tr.random_felt_to_prover();
        evp.push(b);
        inner_cfg.push(tcfg(nc as u64, height, nvf));
        let mut next = vec![Felt::ZERO; (cur.len() + nc - 1) / nc];
        for (d, c) in cur.iter().enumerate() {
            next[d / nc] += *c * b.pow((d % nc) as u64) * pow2(k);
        }
        layers.push(ev);
        trees.push(t);
        cur = next;
        log_m -= k;
    }
    let mut last = cur;
    last.resize(1usize << log_last, Felt::ZERO);
    tr.read_felt_vector_from_prover(&last);
    let config = FriConfig {
        log_input_size: log_n.into(),
        n_layers: (n_layers as u64).into(),
        inner_layers: inner_cfg,
        fri_step_sizes: steps.iter().map(|s| Felt::from(*s)).collect(),
        log_last_layer_degree_bound: log_last.into(),
    };
    FriProof { config, unsent: ft::UnsentCommitment { inner_layers: roots, last_layer_coefficients: last }, layers, trees, eval_points: evp, log_n, steps: steps.to_vec() }
}

impl FriProof {
    /// Witness for sorted distinct query indices into the input layer.
    pub fn witness(&self, queries: &[u64]) -> ft::Witness {
        let mut wl = Vec::new();
        let mut curq: Vec<u64> = queries.to_vec();
        for i in 0..self.layers.len() {
            let cs = 1u64 << self.steps[i + 1];
            let mut cosets: Vec<u64> = curq.iter().map(|q| q / cs).collect();
            cosets.dedup();
            let mut leaves = Vec::new();
            for c in &cosets {
                for j in 0..cs {
                    let ix = c * cs + j;
                    if curq.binary_search(&ix).is_err() { leaves.push(self.layers[i][ix as usize]); }
                }
            }
            wl.push(ft::LayerWitness { leaves, table_witness: twit(auth_path(&self.trees[i], &cosets)) });
            curq = cosets;
        }
        ft::Witness { layers: wl }
    }
    /// values / points of the input layer at the queries (what the DEEP evaluation would supply)
    pub fn decommitment(&self, queries: &[u64]) -> ft::Decommitment {
        let w0 = root_of_unity(self.log_n);
        ft::Decommitment {
            values: queries.iter().map(|q| self.layers[0][*q as usize]).collect(),
            points: queries.iter().map(|q| Felt::THREE * w0.pow(bitrev(*q, self.log_n))).collect(),
        }
    }
}
