//! C04: replay TLC-generated decommitment instances on the real vector_commitment_decommit;
//! optionally record the hooked events of each run (for Trace_Vector).
use crate::terms::{eval, evals, Env};
use crate::util::*;
use serde_json::{json, Value};
use starknet_crypto::Felt;
use swiftness_commitment::vector::{config::Config, decommit::vector_commitment_decommit, types::{Commitment, Query, Witness}};
use swiftness_transcript::verif;

/// args: <cases.ndjson> <out.ndjson> [trace.ndjson [trace_every]]
pub fn run(args: &[String]) {
    let input = std::fs::read_to_string(&args[0]).unwrap();
    let mut out = Out::file(&args[1]);
    let mut trace = args.get(2).map(|p| Out::file(p));
    let every: usize = args.get(3).map(|s| s.parse().unwrap()).unwrap_or(1);
    let mut rng = Rng::from_env(0xC04);
    let (mut cases, mut bad) = (0u64, 0u64);
    for inst in 0..2u64 {
        let env = Env::new(rng.next() ^ inst);
        for (i, line) in input.lines().enumerate() {
            if line.trim().is_empty() { continue; }
            let case: Value = serde_json::from_str(line).unwrap();
            cases += 1;
            let idx: Vec<Felt> = case["idx"].as_array().unwrap().iter().map(|x| Felt::from(x.as_u64().unwrap())).collect();
            let val = evals(&case["val"], &env);
            let auth = evals(&case["auth"], &env);
            let root = eval(&case["root"], &env);
            let cfg = Config { height: Felt::from(case["height"].as_u64().unwrap()), n_verifier_friendly_commitment_layers: Felt::from(case["nvf"].as_u64().unwrap()) };
            let queries: Vec<Query> = idx.iter().zip(val.iter()).map(|(i, v)| Query { index: *i, value: *v }).collect();
            let _ = verif::take();
            let r = guarded(|| vector_commitment_decommit(Commitment { config: cfg.clone(), commitment_hash: root }, &queries, Witness { authentications: auth.clone() }));
            let events = verif::take();
            let expect_ok = case["expect"] == "ok";
            let (got_ok, detail) = match &r { Ok(Ok(())) => (true, "ok".to_string()), Ok(Err(e)) => (false, format!("{e:?}")), Err(p) => (false, format!("panic {p}")) };
            if got_ok != expect_ok {
                bad += 1;
                out.line(&json!({"i": i, "inst": inst, "ok": false, "why": format!("spec expects {} but real decommit returned {}", case["expect"], detail), "case": case}));
            }
            if let Some(t) = trace.as_mut() {
                if inst == 0 && i % every == 0 {
                    t.line(&json!({"ev":"reset","case":i}));
                    for e in &events { t.line(&annotate(e)); }
                    t.line(&json!({"ev":"vc.result","ok":got_ok}));
                }
            }
        }
    }
    out.line(&json!({"summary": true, "cases": cases, "bad": bad}));
}

/// Add `hok` (hash recomputed with the harness's independent primitives) to a hooked event.
pub fn annotate(e: &str) -> Value {
    let mut v: Value = serde_json::from_str(e).unwrap_or_else(|_| panic!("bad event {e}"));
    let kind = v["ev"].as_str().unwrap_or("").to_string();
    match kind.as_str() {
        "vc.node" => {
            let h = crate::merkle::node_hash(&felt_of(&v["l"]), &felt_of(&v["r"]), v["friendly"].as_bool().unwrap());
            v["hok"] = json!(h == felt_of(&v["out"]));
        }
        "absorb" => {
            let mut m = vec![felt_of(&v["before"]) + Felt::ONE];
            m.extend(felts_of(&v["msg"]));
            v["hok"] = json!(starknet_crypto::poseidon_hash_many(&m) == felt_of(&v["digest"]));
        }
        "squeeze" => {
            v["hok"] = json!(starknet_crypto::poseidon_hash(felt_of(&v["digest"]), felt_of(&v["counter"])) == felt_of(&v["out"]));
        }
        "tc.rows" => {
            // row hashes are checked in Trace_Table against tc.begin (needs both events); here only the Montgomery products
        }
        "pow" => {
            let unhex = |s: &str| -> Vec<u8> { (0..s.len() / 2).map(|i| u8::from_str_radix(&s[2 * i..2 * i + 2], 16).unwrap()).collect() };
            let h1 = crate::hashes::pow_hash(&unhex(v["pre1"].as_str().unwrap()));
            let h2 = crate::hashes::pow_hash(&unhex(v["pre2"].as_str().unwrap()));
            let hx = |b: &[u8]| -> String { b.iter().map(|x| format!("{:02x}", x)).collect() };
            v["hok"] = json!(hx(&h1) == v["h1"].as_str().unwrap() && hx(&h2) == v["h2"].as_str().unwrap());
        }
        _ => {}
    }
    v
}
