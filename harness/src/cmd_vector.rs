//! C04: replay TLC-generated decommitment instances on the real vector_commitment_decommit;
//! optionally record the hooked events of each run (for Trace_Vector).
use crate::terms::{eval, evals, Env};
use crate::util::*;
use serde_json::{json, Value};
use starknet_crypto::Felt;
use swiftness_commitment::vector::{config::Config, decommit::vector_commitment_decommit, types::{Commitment, Query, Witness}};
use swiftness_transcript::verif;

/// args: <cases.ndjson> <out.ndjson> [trace.ndjson [trace_every]]
pub fn run(args: &[String]) {
    let input = std::fs::read_to_string(&args[0]).unwrap();
    let mut out = Out::file(&args[1]);
    let mut trace = args.get(2).map(|p| Out::file(p));
    let every: usize = args.get(3).map(|s| s.parse().unwrap()).unwrap_or(1);
    let mut rng = Rng::from_env(0xC04);
    let (mut cases, mut bad) = (0u64, 0u64);
    for inst in 0..2u64 {
        let env = Env::new(rng.next() ^ inst);
        for (i, line) in input.lines().enumerate() {
            if line.trim().is_empty() { continue; }
            let case: Value = serde_json::from_str(line).unwrap();
            cases += 1;
            let idx: Vec<Felt> = case["idx"].as_array().unwrap().iter().map(|x| Felt::from(x.as_u64().unwrap())).collect();
            let val = evals(&case["val"], &env);
            let auth = evals(&case["auth"], &env);
            let root = eval(&case["root"], &env);
            let cfg = Config { height: Felt::from(case["height"].as_u64().unwrap()), n_verifier_friendly_commitment_layers: Felt::from(case["nvf"].as_u64().unwrap()) };
            let queries: Vec<Query> = idx.iter().zip(val.iter()).map(|(i, v)| Query { index: *i, value: *v }).collect();
            let _ = verif::take();
            let r = guarded(|| vector_commitment_decommit(Commitment { config: cfg.clone(), commitment_hash: root }, &queries, Witness { authentications: auth.clone() }));
            let events = verif::take();
            let expect_ok = case["expect"] == "ok";
            let (got_ok, detail) = match &r { Ok(Ok(())) => (true, "ok".to_string()), Ok(Err(e)) => (false, format!("{e:?}")), Err(p) => (false, format!("panic {p}")) };
            if got_ok != expect_ok {
                bad += 1;
                out.line(&json!({"i": i, "inst": inst, "ok": false, "why": format!("spec expects {} but real decommit returned {}", case["expect"], detail), "case": case}));
            }
            if let Some(t) = trace.as_mut() {
                if inst == 0 && i % every == 0 {
                    t.line(&json!({"ev":"reset","case":i}));
                    for e in &events { t.line(&annotate(e)); }
                    t.line(&json!({"ev":"vc.result","ok":got_ok}));
                }
            }
        }
    }
    // Tall trees (the model explores heights <= 4): a single authentication path is an instance of the same rule at any height -
    // children at depth d are hashed with the friendly hash iff n_friendly >= d, the index bits say on which side the sibling is.
    for h in [5u64, 31, 32, 33, 63, 64, 65, 100, 128, 191] {
        for nvf in [0u64, 10, 64, 300] {
            for which in 0..4u64 {
                // index bits, least significant first (bit k: is the node at depth h - k a right child?)
                let bits: Vec<bool> = (0..h).map(|k| match which { 0 => false, 1 => true, 2 => k == 1, _ => rng.below(2) == 1 }).collect();
                let leaf = rng.felt();
                let sibs: Vec<Felt> = (0..h).map(|_| rng.felt()).collect();
                let index = bits.iter().enumerate().fold(Felt::ZERO, |a, (k, b)| if *b { a + Felt::TWO.pow(k as u64) } else { a });
                let fold = |sibs: &[Felt]| -> Felt {
                    let mut cur = leaf;
                    for (k, s) in sibs.iter().enumerate() {
                        let d = h - k as u64;               // depth of the two children being hashed
                        cur = if bits[k] { crate::merkle::node_hash(s, &cur, nvf >= d) } else { crate::merkle::node_hash(&cur, s, nvf >= d) };
                    }
                    cur
                };
                let root = fold(&sibs);
                let cfg = Config { height: Felt::from(h), n_verifier_friendly_commitment_layers: Felt::from(nvf) };
                let mut run = |name: &str, root: Felt, index: Felt, leaf: Felt, auth: Vec<Felt>, expect_ok: bool| {
                    cases += 1;
                    let _ = verif::take();
                    let r = guarded(|| vector_commitment_decommit(Commitment { config: cfg.clone(), commitment_hash: root }, &[Query { index, value: leaf }], Witness { authentications: auth }));
                    let _ = verif::take();
                    let (got_ok, detail) = match &r { Ok(Ok(())) => (true, "ok".to_string()), Ok(Err(e)) => (false, format!("{e:?}")), Err(p) => (false, format!("panic {p}")) };
                    if got_ok != expect_ok {
                        bad += 1;
                        out.line(&json!({"i": 0, "inst": 0, "ok": false, "why": format!("tall tree: the path rule expects {} but real decommit returned {}", if expect_ok { "ok" } else { "a rejection" }, detail),
                                         "case": {"height": h, "nvf": nvf, "idx": [format!("{:#x}", index)], "corrupt": [format!("tall:{name}"), h, nvf]}}));
                    }
                };
                run("honest", root, index, leaf, sibs.clone(), true);
                let mut a = sibs.clone(); let k = (rng.below(h)) as usize; a[k] += Felt::ONE;
                run("sibling+1", root, index, leaf, a, false);
                run("leaf+1", root, index, leaf + Felt::ONE, sibs.clone(), false);
                run("index^1", root, if bits[0] { index - Felt::ONE } else { index + Felt::ONE }, leaf, sibs.clone(), false);
                if h >= 2 { run("only-first-sibling", fold(&sibs[..1]), index, leaf, sibs[..1].to_vec(), false); }
                run("index+2^h", root, index + Felt::TWO.pow(h), leaf, sibs.clone(), false);
            }
        }
    }
    out.line(&json!({"summary": true, "cases": cases, "bad": bad}));
}

/// Add `hok` (hash recomputed with the harness's independent primitives) to a hooked event.
pub fn annotate(e: &str) -> Value {
    let mut v: Value = serde_json::from_str(e).unwrap_or_else(|_| panic!("bad event {e}"));
    let kind = v["ev"].as_str().unwrap_or("").to_string();
    match kind.as_str() {
        "vc.node" => {
            let h = crate::merkle::node_hash(&felt_of(&v["l"]), &felt_of(&v["r"]), v["friendly"].as_bool().unwrap());
            v["hok"] = json!(h == felt_of(&v["out"]));
        }
        "absorb" => {
            let mut m = vec![felt_of(&v["before"]) + Felt::ONE];
            m.extend(felts_of(&v["msg"]));
            v["hok"] = json!(starknet_crypto::poseidon_hash_many(&m) == felt_of(&v["digest"]));
        }
        "squeeze" => {
            v["hok"] = json!(starknet_crypto::poseidon_hash(felt_of(&v["digest"]), felt_of(&v["counter"])) == felt_of(&v["out"]));
        }
        "tc.rows" => {
            // row hashes are checked in Trace_Table against tc.begin (needs both events); here only the Montgomery products
        }
        "pow" => {
            let unhex = |s: &str| -> Vec<u8> { (0..s.len() / 2).map(|i| u8::from_str_radix(&s[2 * i..2 * i + 2], 16).unwrap()).collect() };
            let h1 = crate::hashes::pow_hash(&unhex(v["pre1"].as_str().unwrap()));
            let h2 = crate::hashes::pow_hash(&unhex(v["pre2"].as_str().unwrap()));
            let hx = |b: &[u8]| -> String { b.iter().map(|x| format!("{:02x}", x)).collect() };
            v["hok"] = json!(hx(&h1) == v["h1"].as_str().unwrap() && hx(&h2) == v["h2"].as_str().unwrap());
        }
        _ => {}
    }
    v
}
