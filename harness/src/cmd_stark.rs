//! Whole-verifier commands on the Toy layout: strategy replay (C01), and helpers shared by C02/C17/C18.
use crate::cmd_table::annotate_all;
use crate::toy::{prove, Params, Strategy, Toy};
use crate::util::*;
use serde_json::{json, Value};
use starknet_crypto::Felt;
use swiftness_air::layout::LayoutTrait;
use swiftness_stark::types::StarkProof;
use swiftness_transcript::verif;

pub enum Verdict { Accept(Felt, Felt), Reject(String), Panic(String), Fuel }
impl Verdict {
    pub fn tag(&self) -> &'static str { match self { Verdict::Accept(..) => "accept", Verdict::Reject(_) => "reject", Verdict::Panic(_) => "panic", Verdict::Fuel => "fuel" } }
    pub fn detail(&self) -> String { match self { Verdict::Accept(a, b) => format!("{:#x},{:#x}", a, b), Verdict::Reject(e) => e.clone(), Verdict::Panic(p) => p.clone(), Verdict::Fuel => "fuel exhausted".into() } }
}

/// Run the real verifier on a proof with the Toy layout, collecting hooked events.
pub fn verify_toy(proof: &StarkProof, security_bits: Felt, fuel: Option<u64>, record: bool) -> (Verdict, Vec<String>, u64) {
    let _ = verif::take();
    verif::set_record(record);
    verif::set_fuel(fuel);
    let r = guarded(|| proof.verify::<Toy>(security_bits));
    let used = verif::used();
    verif::set_fuel(None);
    verif::set_record(true);
    let events = verif::take();
    let v = match r {
        Ok(Ok((a, b))) => Verdict::Accept(a, b),
        Ok(Err(e)) => Verdict::Reject(format!("{e:?}").chars().take(160).collect()),
        Err(p) => if p.contains(verif::FUEL_EXHAUSTED) { Verdict::Fuel } else { Verdict::Panic(p) },
    };
    (v, events, used)
}

/// The `proof` event of whole-verifier traces: what the proof declares about itself (read by Trace_Stark).
pub fn proof_event<L: LayoutTrait>(p: &StarkProof, n_ie: usize, n1: usize, n2: usize, security_bits: &Felt) -> Value {
    let c = &p.config;
    json!({"ev":"proof",
        "mask": L::MASK_SIZE, "cdeg": L::CONSTRAINT_DEGREE, "n_constraints": L::N_CONSTRAINTS, "n_ie": n_ie, "n1": n1, "n2": n2,
        "security_bits": hex(security_bits),
        "log_trace": hex(&c.log_trace_domain_size), "log_cosets": hex(&c.log_n_cosets), "n_queries": hex(&c.n_queries), "nvf": hex(&c.n_verifier_friendly_commitment_layers),
        "pow_bits": c.proof_of_work.n_bits, "comp_ncols": hex(&c.composition.n_columns),
        "fri_log_input": hex(&c.fri.log_input_size), "fri_n_layers": hex(&c.fri.n_layers), "fri_log_last": hex(&c.fri.log_last_layer_degree_bound),
        "fri_steps": hexs(c.fri.fri_step_sizes.iter()),
        "c_orig": hex(&p.unsent_commitment.traces.original), "c_inter": hex(&p.unsent_commitment.traces.interaction), "c_comp": hex(&p.unsent_commitment.composition),
        "oods": hexs(p.unsent_commitment.oods_values.iter()),
        "fri_commits": hexs(p.unsent_commitment.fri.inner_layers.iter()), "last_coefs": hexs(p.unsent_commitment.fri.last_layer_coefficients.iter()),
        "nonce": format!("{:#x}", p.unsent_commitment.proof_of_work.nonce),
        "orig_values": hexs(p.witness.traces_decommitment.original.values.iter()),
        "inter_values": hexs(p.witness.traces_decommitment.interaction.values.iter()),
        "comp_values": hexs(p.witness.composition_decommitment.values.iter()),
    })
}

pub fn trace_lines(t: &mut Vec<Value>, case: Value, proof: &StarkProof, sb: &Felt, events: &[String], v: &Verdict) {
    let mut r = json!({"ev":"reset"});
    r["case"] = case;
    t.push(r);
    t.push(proof_event::<Toy>(proof, 1, 1, 1, sb));
    for e in annotate_all(events) { t.push(e); }
    let (ph, oh) = match v { Verdict::Accept(a, b) => (hex(a), hex(b)), _ => ("0x0".into(), "0x0".into()) };
    t.push(json!({"ev":"result","ok": matches!(v, Verdict::Accept(..)), "program_hash": ph, "output_hash": oh}));
}

fn apply_cfg_dev(p: &mut StarkProof, dev: &str) {
    let c = &mut p.config;
    let one = Felt::ONE;
    match dev {
        "none" => {}
        "logCosets0" => { // blow-up exponent 0, everything re-declared consistently
            let d = c.log_n_cosets; c.log_n_cosets = Felt::ZERO;
            for t in [&mut c.traces.original, &mut c.traces.interaction, &mut c.composition] { t.vector.height -= d; }
            c.fri.log_input_size -= d; for l in c.fri.inner_layers.iter_mut() { l.vector.height -= d; }
        }
        "nQueries0" => c.n_queries = Felt::ZERO,
        "nQueries49" => c.n_queries = Felt::from(49),
        "friInputPlus1" => { c.fri.log_input_size += one; c.fri.log_last_layer_degree_bound += one; for l in c.fri.inner_layers.iter_mut() { l.vector.height += one; } }
        "cosetsWrap" => { // log_n_cosets := p - 2 with every height re-declared modulo the field
            let d = c.log_n_cosets + Felt::TWO; c.log_n_cosets = Felt::ZERO - Felt::TWO;
            for t in [&mut c.traces.original, &mut c.traces.interaction, &mut c.composition] { t.vector.height -= d; }
            c.fri.log_input_size -= d; for l in c.fri.inner_layers.iter_mut() { l.vector.height -= d; }
        }
        "powBits19" => c.proof_of_work.n_bits = 19,
        "lastLayerDrop" => { p.unsent_commitment.fri.last_layer_coefficients.pop(); }
        o => panic!("cfg dev {o}"),
    }
}

/// C01 replay. input: ndjson recipes {"strategy":..,"cfgdev":..,"expect":"accept"|"reject"}
/// args: <recipes.ndjson> <out.ndjson> <trace.ndjson> <instances_per_recipe> <max_log_trace>
pub fn run_replay(args: &[String]) {
    let input = std::fs::read_to_string(&args[0]).unwrap();
    let mut out = Out::file(&args[1]);
    let mut trace = Out::file(&args[2]);
    let per: u64 = args[3].parse().unwrap();
    let maxlt: u64 = args[4].parse().unwrap();
    let mut rng = Rng::from_env(0xC01);
    let mut jobs: Vec<(usize, Value, u64, u64)> = Vec::new();
    for (i, line) in input.lines().enumerate() {
        if line.trim().is_empty() { continue; }
        let recipe: Value = serde_json::from_str(line).unwrap();
        for k in 0..per { jobs.push((i, recipe.clone(), k, rng.next())); }
    }
    let results = par_map(&jobs, n_threads(), |_, (i, recipe, k, seed)| {
        let mut rng = Rng(*seed);
        let strat = Strategy::parse(recipe["strategy"].as_str().unwrap());
        let dev = recipe["cfgdev"].as_str().unwrap();
        let mut params = Params::random(&mut rng, maxlt);
        if strat == Strategy::BadTraceAdaptiveLeaves { params.n_queries = 1 + rng.below(2); }
        if dev == "nativeCosets0" { params.log_cosets = 0; }
        let proved = prove(&params, rng.felt(), strat);
        let mut proof = proved.proof;
        if dev != "nativeCosets0" { apply_cfg_dev(&mut proof, dev); }
        let sb = proved.security_bits;
        let (v, events, _) = verify_toy(&proof, sb, Some(2_000_000), true);
        let expect_ok = recipe["expect"] == "accept";
        let got_ok = matches!(v, Verdict::Accept(..));
        let desc = json!({"recipe": recipe, "params": format!("{params:?}"), "k": k});
        let mut bad = None;
        if got_ok != expect_ok {
            bad = Some(json!({"i": i, "ok": false, "kind": "verdict", "why": format!("model expects {} but StarkProof::verify returned {} ({})", recipe["expect"], v.tag(), v.detail()),
                "case": desc, "proof": serde_json::to_value(&proof).unwrap()}));
        }
        let mut tbuf: Vec<Value> = Vec::new();
        if !matches!(v, Verdict::Panic(_) | Verdict::Fuel) { trace_lines(&mut tbuf, desc, &proof, &sb, &events, &v); }
        (bad, tbuf)
    });
    let (mut cases, mut nbad) = (0u64, 0u64);
    for (bad, tbuf) in results {
        cases += 1;
        if let Some(b) = bad { nbad += 1; out.line(&b); }
        for l in tbuf { trace.line(&l); }
    }
    out.line(&json!({"summary": true, "cases": cases, "bad": nbad}));
}
