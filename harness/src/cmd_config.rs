//! C11: replay TLC-generated configurations on the real StarkConfig::validate.
use crate::util::*;
use serde_json::{json, Value};
use starknet_crypto::Felt;
use swiftness_air::trace::config::Config as TracesConfig;
use swiftness_commitment::{table::config::Config as TConfig, vector::config::Config as VConfig};
use swiftness_fri::config::Config as FriConfig;
use swiftness_pow::config::Config as PowConfig;
use swiftness_stark::config::StarkConfig;

/// model value in F_P -> real field element (values above P/2 are "negative": p - (P - x))
/// For the "hi.*" deviations the model unit Hi stands for a huge power of two (2^64, 2^128, 2^192): the signed model
/// value is split as q * Hi + r with |r| <= Hi/2 and lifted to q * unit + r, which keeps every sum the model forms exact.
pub fn lift(v: &Value, p: u64) -> Felt {
    let x = v.as_u64().unwrap_or_else(|| panic!("model number expected, got {v}")) % p;
    let signed = |m: u64, neg: bool| if neg { Felt::ZERO - Felt::from(m) } else { Felt::from(m) };
    let (mag, neg) = if x > p / 2 { (p - x, true) } else { (x, false) };
    match HI.with(|h| h.get()) {
        None => signed(mag, neg),
        Some((hi, unit_log)) => {
            let q = (mag + hi / 2) / hi;
            let (r, rneg) = if mag >= q * hi { (mag - q * hi, false) } else { (q * hi - mag, true) };
            // unit_log = 0 stands for the multiplicative order of 2 modulo the field prime, (p - 1) / 10: 2^(x + ord) = 2^x
            let unit = if unit_log == 0 { (Felt::ZERO - Felt::ONE).field_div(&starknet_core::types::NonZeroFelt::try_from(Felt::from(10)).unwrap()) } else { Felt::TWO.pow(unit_log) };
            let v = Felt::from(q) * unit + signed(r, rneg);
            if neg { Felt::ZERO - v } else { v }
        }
    }
}
thread_local! { static HI: std::cell::Cell<Option<(u64, u64)>> = const { std::cell::Cell::new(None) }; }
fn table(v: &Value, p: u64) -> TConfig {
    TConfig { n_columns: lift(&v["ncols"], p), vector: VConfig { height: lift(&v["vec"]["height"], p), n_verifier_friendly_commitment_layers: lift(&v["vec"]["nvf"], p) } }
}
pub fn config_of(c: &Value, p: u64) -> StarkConfig {
    StarkConfig {
        traces: TracesConfig { original: table(&c["orig"], p), interaction: table(&c["inter"], p) },
        composition: table(&c["comp"], p),
        fri: FriConfig {
            log_input_size: lift(&c["fri"]["logInput"], p),
            n_layers: lift(&c["fri"]["nLayers"], p),
            inner_layers: c["fri"]["inner"].as_array().unwrap().iter().map(|t| table(t, p)).collect(),
            fri_step_sizes: c["fri"]["steps"].as_array().unwrap().iter().map(|x| lift(x, p)).collect(),
            log_last_layer_degree_bound: lift(&c["fri"]["logLast"], p),
        },
        proof_of_work: PowConfig { n_bits: c["pow"].as_u64().unwrap() as u8 },
        log_trace_domain_size: lift(&c["logTrace"], p),
        n_queries: lift(&c["nQueries"], p),
        log_n_cosets: lift(&c["logCosets"], p),
        n_verifier_friendly_commitment_layers: lift(&c["nvf"], p),
    }
}

/// args: <cases.ndjson> <out.ndjson>
pub fn run(args: &[String]) {
    let input = std::fs::read_to_string(&args[0]).unwrap();
    let mut out = Out::file(&args[1]);
    let (mut cases, mut bad, mut panics) = (0u64, 0u64, 0u64);
    for (i, line) in input.lines().enumerate() {
        if line.trim().is_empty() { continue; }
        let case: Value = serde_json::from_str(line).unwrap();
        let p = case["P"].as_u64().unwrap();
        let is_hi = case["devs"].as_array().map(|d| d.iter().any(|x| x[0].as_str().map(|n| n.starts_with("hi.")).unwrap_or(false))).unwrap_or(false);
        let units: Vec<Option<u64>> = if is_hi { vec![Some(64), Some(128), Some(192), Some(0)] } else { vec![None] };
        for unit in units {
        HI.with(|h| h.set(unit.map(|u| (case["hi"].as_u64().expect("hi unit"), u))));
        let mut case = case.clone();
        if let Some(u) = unit { case["hi_unit_log2"] = json!(u); }
        let mut cfg = config_of(&case["cfg"], p);
        // "inv.*": a quotient in the field has no image under the lift; it is recomputed at the real prime
        // (only when it is the last deviation that sets n_queries: a later one overrides it, as in the model)
        if let Some(ds) = case["devs"].as_array() {
            let last_nq = ds.iter().rposition(|d| matches!(d[0].as_str(), Some("inv.nQueries") | Some("nQueries") | Some("hi.nQueries")));
            if let Some(i) = last_nq { if ds[i][0] == "inv.nQueries" {
                if let Some(inv) = cfg.log_n_cosets.inverse() { cfg.n_queries = Felt::from(ds[i][1].as_u64().unwrap()) * inv; }
            } }
        }
        let sec = lift(&case["sec"], p);
        let (n1, n2) = (lift(&case["n1"], p), lift(&case["n2"], p));
        cases += 1;
        let r = guarded(|| cfg.validate(sec, n1, n2));
        let expect_ok = case["expect"] == "ok";
        let (got_ok, detail, panic_at) = match &r {
            Ok(Ok(())) => (true, "Ok".to_string(), None),
            Ok(Err(e)) => (false, format!("{e:?}"), None),
            Err(p) => (false, format!("panic {p}"), Some(p.clone())),
        };
        if got_ok != expect_ok {
            bad += 1;
            out.line(&json!({"i": i, "ok": false, "kind": "verdict", "why": format!("property predicate says {} but real StarkConfig::validate returned {}", case["expect"], detail), "case": case}));
        }
        if let Some(w) = panic_at {
            panics += 1;
            out.line(&json!({"i": i, "ok": false, "kind": "panic", "where": w, "why": format!("StarkConfig::validate panicked at {w}"), "case": case}));
        }
        }
        HI.with(|h| h.set(None));
    }
    out.line(&json!({"summary": true, "cases": cases, "bad": bad, "panics": panics}));
}
