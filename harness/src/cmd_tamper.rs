//! C02 / C17 / C18 on whole proofs: mutate accepted proofs position by position and run the real verifier.
use crate::cmd_stark::Verdict;
use crate::mutate::*;
use crate::real;
use crate::toy::{prove, Params, Strategy};
use crate::util::*;
use serde_json::{json, Value};
use starknet_crypto::Felt;
use swiftness_stark::types::StarkProof;

pub struct Subject { pub id: String, pub layout: String, pub proof: Value, pub sb: Felt, pub size: usize }

fn verify_subject(layout: &str, proof: &StarkProof, sb: Felt, fuel: Option<u64>) -> (Verdict, u64) {
    if layout == "toy" { let (v, _, u) = crate::cmd_stark::verify_toy(proof, sb, fuel, false); (v, u) }
    else { let (v, _, u) = real::verify_as(layout, proof, sb, fuel, false); (v, u) }
}

/// accepted proofs to work on: `n_toy` fresh toy proofs and (optionally) the shipped proofs matching this build
pub fn subjects(n_toy: u64, with_real: bool, rng: &mut Rng) -> Vec<Subject> {
    let seeds: Vec<u64> = (0..n_toy).map(|_| rng.next()).collect();
    let mut out: Vec<Subject> = par_map(&seeds, n_threads(), |i, s| {
        let mut r = Rng(*s);
        let params = Params::random(&mut r, 5);
        let pr = prove(&params, r.felt(), Strategy::Honest);
        let v = serde_json::to_value(&pr.proof).unwrap();
        let mut leaves = Vec::new(); let mut arrays = Vec::new();
        walk(&v, &mut Vec::new(), &mut leaves, &mut arrays);
        Subject { id: format!("toy{i}:{params:?}"), layout: "toy".into(), proof: v, sb: pr.security_bits, size: leaves.len() }
    });
    if with_real {
        let build = crate::build_info();
        for f in real::list_proofs() {
            if format!("{}-{}", f.hash, f.stone) != build { continue; }
            if let Ok(p) = real::load(&f.text) {
                let sb = p.config.security_bits();
                let v = serde_json::to_value(&p).unwrap();
                let mut leaves = Vec::new(); let mut arrays = Vec::new();
                walk(&v, &mut Vec::new(), &mut leaves, &mut arrays);
                out.push(Subject { id: f.path.clone(), layout: f.layout.clone(), proof: v, sb, size: leaves.len() });
            }
        }
        if build == "keccak_160_lsb-stone5" {
            let p = real::fixture_proof();
            let v = serde_json::to_value(&p).unwrap();
            let mut leaves = Vec::new(); let mut arrays = Vec::new();
            walk(&v, &mut Vec::new(), &mut leaves, &mut arrays);
            out.push(Subject { id: "fixture".into(), layout: "recursive".into(), proof: v, sb: Felt::from_hex_unchecked("0x32"), size: leaves.len() });
        }
    }
    out
}

struct Job { subj: usize, path: Path, kind: &'static str, value: Option<Value> }

/// C02. args: <out.ndjson> <n_toy> <real: none|sample|all> <per_class_sample>
pub fn run_tamper(args: &[String]) {
    let mut out = Out::file(&args[0]);
    let n_toy: u64 = args[1].parse().unwrap();
    let real_mode = args[2].as_str();
    let per_class: usize = args[3].parse().unwrap();
    let mut rng = Rng::from_env(0xC02);
    let subs = subjects(n_toy, real_mode != "none", &mut rng);
    // sanity: every subject is accepted
    for s in &subs {
        let p: StarkProof = serde_json::from_value(s.proof.clone()).unwrap();
        let (v, _) = verify_subject(&s.layout, &p, s.sb, None);
        if !matches!(v, Verdict::Accept(..)) { out.line(&json!({"kind":"subject-not-accepted","id":s.id,"detail":v.detail()})); }
    }
    let mut jobs: Vec<Job> = Vec::new();
    for (si, s) in subs.iter().enumerate() {
        let mut leaves = Vec::new(); let mut arrays = Vec::new();
        walk(&s.proof, &mut Vec::new(), &mut leaves, &mut arrays);
        let sample = s.layout != "toy" && real_mode == "sample";
        // choose positions: all for toy / "all"; per class a seeded sample otherwise
        let mut by_class: std::collections::BTreeMap<String, Vec<Path>> = Default::default();
        for l in leaves { by_class.entry(class_of(&l)).or_default().push(l); }
        for (_c, mut ps) in by_class {
            if sample && ps.len() > per_class {
                let mut chosen = vec![ps[0].clone(), ps[ps.len() - 1].clone()];
                while chosen.len() < per_class { chosen.push(ps[rng.below(ps.len() as u64) as usize].clone()); }
                ps = chosen;
            }
            for p in ps {
                let cur = get(&s.proof, &p).clone();
                jobs.push(Job { subj: si, path: p.clone(), kind: "plus1", value: Some(replace_plus_one(&cur)) });
                let rv = replace_with(&cur, rng.felt(), rng.below(200));
                if rv != cur { jobs.push(Job { subj: si, path: p.clone(), kind: "random", value: Some(rv) }); }
                let z = replace_with(&cur, Felt::ZERO, 0);
                if z != cur { jobs.push(Job { subj: si, path: p.clone(), kind: "zero", value: Some(z) }); }
            }
        }
        for a in arrays {
            let len = get(&s.proof, &a).as_array().unwrap().len();
            let idxs: Vec<usize> = if len == 0 { vec![] } else if len <= 6 || (!sample && len <= 64) { (0..len).collect() } else { vec![0, len / 2, len - 1, rng.below(len as u64) as usize] };
            for i in idxs { let mut p = a.clone(); p.push(Seg::Idx(i)); jobs.push(Job { subj: si, path: p, kind: "delete", value: None }); }
            let mut p = a.clone(); p.push(Seg::Idx(len)); jobs.push(Job { subj: si, path: p, kind: "append", value: None });
        }
    }
    let results = par_map(&jobs, n_threads(), |_, j| {
        let s = &subs[j.subj];
        let mut v = s.proof.clone();
        match j.kind {
            "delete" => { let (arr, idx) = (j.path[..j.path.len() - 1].to_vec(), match j.path.last().unwrap() { Seg::Idx(i) => *i, _ => 0 }); get_mut(&mut v, &arr).as_array_mut().unwrap().remove(idx); }
            "append" => { let arr = j.path[..j.path.len() - 1].to_vec(); let a = get_mut(&mut v, &arr).as_array_mut().unwrap(); let e = a.last().cloned(); if let Some(e) = e { a.push(e); } else { return ("skip".to_string(), String::new()); } }
            _ => { *get_mut(&mut v, &j.path) = j.value.clone().unwrap(); }
        }
        let p: StarkProof = match serde_json::from_value(v) { Ok(p) => p, Err(e) => return ("undeserialisable".into(), format!("{e}")) };
        let (verdict, _) = verify_subject(&s.layout, &p, s.sb, Some(20_000_000));
        (verdict.tag().to_string(), verdict.detail())
    });
    let mut per: std::collections::BTreeMap<(String, String), (u64, u64, u64)> = Default::default();
    let (mut total, mut accepted) = (0u64, 0u64);
    for (j, (tag, detail)) in jobs.iter().zip(results.iter()) {
        if tag == "skip" { continue; }
        let s = &subs[j.subj];
        let lay = if s.layout == "toy" { "toy" } else { "real" };
        let cls = if j.kind == "delete" || j.kind == "append" { class_of(&j.path[..j.path.len() - 1].to_vec()) + "[]" } else { class_of(&j.path) };
        let e = per.entry((format!("{lay}:{cls}"), j.kind.to_string())).or_default();
        e.0 += 1;
        total += 1;
        if tag == "accept" { e.1 += 1; }
        if tag == "panic" { e.2 += 1; }
        if tag == "accept" && j.kind != "append" {
            accepted += 1;
            // n_queries +-1 whose extra / missing sample collides with another one leaves the query *set* unchanged: detect it
            let mut same_queries = false;
            if path_str(&j.path) == "config.n_queries" {
                let q = |v: &Value| -> Option<Value> {
                    let p: StarkProof = serde_json::from_value(v.clone()).ok()?;
                    let evs = if s.layout == "toy" { crate::cmd_stark::verify_toy(&p, s.sb, None, true).1 } else { real::verify_as(&s.layout, &p, s.sb, None, true).1 };
                    evs.iter().filter_map(|e| serde_json::from_str::<Value>(e).ok()).find(|e| e["ev"] == "queries").map(|e| e["out"].clone())
                };
                let mut mv = s.proof.clone();
                *get_mut(&mut mv, &j.path) = j.value.clone().unwrap();
                same_queries = q(&s.proof).is_some() && q(&s.proof) == q(&mv);
            }
            out.line(&json!({"kind":"accepted-mutant","subject":s.id,"layout":s.layout,"path":path_str(&j.path),"class":cls,"mutation":j.kind,"value":j.value,"detail":detail,
                             "same_query_set": same_queries, "proof": if s.layout == "toy" { s.proof.clone() } else { Value::Null }}));
        }
    }
    for ((cls, kind), (n, acc, pan)) in &per { out.line(&json!({"kind":"class","class":cls,"mutation":kind,"tested":n,"accepted":acc,"panics":pan})); }
    out.line(&json!({"summary": true, "subjects": subs.len(), "mutants": total, "accepted": accepted}));
}
