//! C02 / C17 / C18 on whole proofs: mutate accepted proofs position by position and run the real verifier.
use crate::cmd_stark::Verdict;
use crate::cmd_table::annotate_all;
use crate::mutate::*;
use crate::real;
use crate::toy::{prove, Params, Strategy};
use crate::util::*;
use serde_json::{json, Value};
use starknet_crypto::Felt;
use swiftness_stark::types::StarkProof;

pub struct Subject { pub id: String, pub layout: String, pub proof: Value, pub sb: Felt, pub size: usize,
                     /// a shipped proof of another hash / Stone build: this binary cannot verify it, but configuration and public-input
                     /// validation do not depend on the build
                     pub pi_only: bool }

fn verify_subject(layout: &str, proof: &StarkProof, sb: Felt, fuel: Option<u64>) -> (Verdict, u64) {
    if layout == "toy" { let (v, _, u) = crate::cmd_stark::verify_toy(proof, sb, fuel, false); (v, u) }
    else { let (v, _, u) = real::verify_as(layout, proof, sb, fuel, false); (v, u) }
}

/// accepted proofs to work on: `n_toy` fresh toy proofs and (optionally) the shipped proofs matching this build
pub fn subjects(n_toy: u64, with_real: bool, rng: &mut Rng) -> Vec<Subject> {
    let seeds: Vec<u64> = (0..n_toy).map(|_| rng.next()).collect();
    let mut out: Vec<Subject> = par_map(&seeds, n_threads(), |i, s| {
        let mut r = Rng(*s);
        let params = Params::random(&mut r, 5);
        let pr = prove(&params, r.felt(), Strategy::Honest);
        let v = serde_json::to_value(&pr.proof).unwrap();
        let mut leaves = Vec::new(); let mut arrays = Vec::new();
        walk(&v, &mut Vec::new(), &mut leaves, &mut arrays);
        Subject { id: format!("toy{i}:{params:?}"), layout: "toy".into(), proof: v, sb: pr.security_bits, size: leaves.len(), pi_only: false }
    });
    if with_real {
        let build = crate::build_info();
        for f in real::list_proofs() {
            if format!("{}-{}", f.hash, f.stone) != build { continue; }
            if let Ok(p) = real::load(&f.text) {
                let sb = p.config.security_bits();
                let v = serde_json::to_value(&p).unwrap();
                let mut leaves = Vec::new(); let mut arrays = Vec::new();
                walk(&v, &mut Vec::new(), &mut leaves, &mut arrays);
                out.push(Subject { id: f.path.clone(), layout: f.layout.clone(), proof: v, sb, size: leaves.len(), pi_only: false });
            }
        }
        if build == "keccak_160_lsb-stone5" {
            let p = real::fixture_proof();
            let v = serde_json::to_value(&p).unwrap();
            let mut leaves = Vec::new(); let mut arrays = Vec::new();
            walk(&v, &mut Vec::new(), &mut leaves, &mut arrays);
            out.push(Subject { id: "fixture".into(), layout: "recursive".into(), proof: v, sb: Felt::from_hex_unchecked("0x32"), size: leaves.len(), pi_only: false });
        }
    }
    out
}

struct Job { subj: usize, path: Path, kind: &'static str, value: Option<Value>, trace: bool }

/// C02. args: <out.ndjson> <n_toy> <real: none|sample|all> <per_class_sample> [trace.ndjson]
pub fn run_tamper(args: &[String]) {
    let mut out = Out::file(&args[0]);
    let n_toy: u64 = args[1].parse().unwrap();
    let real_mode = args[2].as_str();
    let per_class: usize = args[3].parse().unwrap();
    let mut rng = Rng::from_env(0xC02);
    let subs = subjects(n_toy, real_mode != "none", &mut rng);
    // sanity: every subject is accepted
    for s in &subs {
        let p: StarkProof = serde_json::from_value(s.proof.clone()).unwrap();
        let (v, _) = verify_subject(&s.layout, &p, s.sb, None);
        if !matches!(v, Verdict::Accept(..)) { out.line(&json!({"kind":"subject-not-accepted","id":s.id,"detail":v.detail()})); }
    }
    let mut jobs: Vec<Job> = Vec::new();
    for (si, s) in subs.iter().enumerate() {
        let mut leaves = Vec::new(); let mut arrays = Vec::new();
        walk(&s.proof, &mut Vec::new(), &mut leaves, &mut arrays);
        let sample = s.layout != "toy" && real_mode == "sample";
        // choose positions: all for toy / "all"; per class a seeded sample otherwise
        let mut by_class: std::collections::BTreeMap<String, Vec<Path>> = Default::default();
        for l in leaves { by_class.entry(class_of(&l)).or_default().push(l); }
        for (_c, mut ps) in by_class {
            if sample && ps.len() > per_class {
                let mut chosen = vec![ps[0].clone(), ps[ps.len() - 1].clone()];
                while chosen.len() < per_class { chosen.push(ps[rng.below(ps.len() as u64) as usize].clone()); }
                ps = chosen;
            }
            for p in ps {
                let cur = get(&s.proof, &p).clone();
                jobs.push(Job { subj: si, path: p.clone(), kind: "plus1", value: Some(replace_plus_one(&cur)), trace: false });
                let rv = replace_with(&cur, rng.felt(), rng.below(200));
                if rv != cur { jobs.push(Job { subj: si, path: p.clone(), kind: "random", value: Some(rv), trace: false }); }
                let z = replace_with(&cur, Felt::ZERO, 0);
                if z != cur { jobs.push(Job { subj: si, path: p.clone(), kind: "zero", value: Some(z), trace: false }); }
                // same low bits, different high bits (digest widths 160 / 248): only meaningful for field elements of the witness / messages
                // declared numbers: same low machine word(s), different value (a check done on a truncated conversion would not see it)
                if cur.is_string() && (path_str(&p).starts_with("config") || path_str(&p).starts_with("public_input")) {
                    for (k, name) in [(64u64, "hi64"), (128u64, "hi128"), (192u64, "hi192")] {
                        if let Ok(f0) = Felt::from_hex(cur.as_str().unwrap()) {
                            let f = f0 + Felt::TWO.pow(k);
                            jobs.push(Job { subj: si, path: p.clone(), kind: name, value: Some(json!(format!("{:#x}", f))), trace: false });
                        }
                    }
                }
                if cur.is_string() && (path_str(&p).starts_with("witness") || path_str(&p).starts_with("unsent")) {
                    for (k, name) in [(160u64, "hi160"), (248u64, "hi248")] {
                        let f = Felt::from_hex(cur.as_str().unwrap()).unwrap() + Felt::TWO.pow(k);
                        jobs.push(Job { subj: si, path: p.clone(), kind: name, value: Some(json!(format!("{:#x}", f))), trace: false });
                    }
                }
            }
        }
        for a in arrays {
            let len = get(&s.proof, &a).as_array().unwrap().len();
            let idxs: Vec<usize> = if len == 0 { vec![] } else if len <= 6 || (!sample && len <= 64) { (0..len).collect() } else { vec![0, len / 2, len - 1, rng.below(len as u64) as usize] };
            for i in idxs { let mut p = a.clone(); p.push(Seg::Idx(i)); jobs.push(Job { subj: si, path: p, kind: "delete", value: None, trace: false }); }
            let mut p = a.clone(); p.push(Seg::Idx(len)); jobs.push(Job { subj: si, path: p, kind: "append", value: None, trace: false });
        }
    }
    // a recorded run of one replaced and one deleted position per (subject, class): the trace must be a behaviour of Trace_Stark,
    // i.e. the verifier stops at the first check that fails and never continues past a failed decommitment
    let mut trace_out = args.get(4).map(|p| Out::file(p));
    if trace_out.is_some() {
        let mut seen: std::collections::BTreeSet<(usize, String, &'static str)> = Default::default();
        for j in jobs.iter_mut() {
            // (hi160: a message whose low 160 bits are unchanged must still be absorbed whole)
            if j.kind != "plus1" && j.kind != "delete" && !(j.kind == "hi160" && path_str(&j.path).starts_with("unsent")) { continue; }
            let cls = if j.kind == "delete" { class_of(&j.path[..j.path.len() - 1].to_vec()) + "[]" } else { class_of(&j.path) };
            if seen.insert((j.subj, cls, j.kind)) { j.trace = true; }
        }
    }
    start_watchdog(300);
    let results = par_map(&jobs, n_threads(), |_, j| {
        let s = &subs[j.subj];
        watch(format!("mutation={} at {} | subject={}", j.kind, path_str(&j.path), s.id));
        let mut v = s.proof.clone();
        match j.kind {
            "delete" => { let (arr, idx) = (j.path[..j.path.len() - 1].to_vec(), match j.path.last().unwrap() { Seg::Idx(i) => *i, _ => 0 }); get_mut(&mut v, &arr).as_array_mut().unwrap().remove(idx); }
            "append" => { let arr = j.path[..j.path.len() - 1].to_vec(); let a = get_mut(&mut v, &arr).as_array_mut().unwrap(); let e = a.last().cloned(); if let Some(e) = e { a.push(e); } else { return ("skip".to_string(), String::new(), Vec::new()); } }
            _ => { *get_mut(&mut v, &j.path) = j.value.clone().unwrap(); }
        }
        let p: StarkProof = match serde_json::from_value(v) { Ok(p) => p, Err(e) => return ("undeserialisable".into(), format!("{e}"), Vec::new()) };
        if j.trace {
            let (verdict, events, _) = if s.layout == "toy" { crate::cmd_stark::verify_toy(&p, s.sb, Some(20_000_000), true) } else { real::verify_as(&s.layout, &p, s.sb, Some(20_000_000), true) };
            let mut tl: Vec<Value> = Vec::new();
            if !matches!(verdict, Verdict::Panic(_) | Verdict::Fuel) {
                let case = json!({"subject": s.id, "path": path_str(&j.path), "mutation": j.kind});
                let built = guarded(|| {
                    let mut tl: Vec<Value> = Vec::new();
                    if s.layout == "toy" { crate::cmd_stark::trace_lines(&mut tl, case.clone(), &p, &s.sb, &events, &verdict); }
                    else {
                        let mut r = json!({"ev":"reset"}); r["case"] = case.clone(); tl.push(r);
                        tl.push(crate::cmd_real::proof_event_for(&s.layout, &p, &s.sb));
                        for e in annotate_all(&events) { tl.push(e); }
                        tl.push(json!({"ev":"result","ok": matches!(verdict, Verdict::Accept(..)), "program_hash": "0x0", "output_hash": "0x0"}));
                    }
                    tl
                });
                if let Ok(b) = built { tl = b; }
            }
            return (verdict.tag().to_string(), verdict.detail(), tl);
        }
        let (verdict, _) = verify_subject(&s.layout, &p, s.sb, Some(20_000_000));
        (verdict.tag().to_string(), verdict.detail(), Vec::new())
    });
    if let Some(t) = trace_out.as_mut() { for (_, _, tl) in &results { for l in tl { t.line(l); } } }
    let mut per: std::collections::BTreeMap<(String, String), (u64, u64, u64)> = Default::default();
    let (mut total, mut accepted) = (0u64, 0u64);
    for (j, (tag, detail, _)) in jobs.iter().zip(results.iter()) {
        if tag == "skip" { continue; }
        let s = &subs[j.subj];
        let lay = if s.layout == "toy" { "toy" } else { "real" };
        let cls = if j.kind == "delete" || j.kind == "append" { class_of(&j.path[..j.path.len() - 1].to_vec()) + "[]" } else { class_of(&j.path) };
        let e = per.entry((format!("{lay}:{cls}"), j.kind.to_string())).or_default();
        e.0 += 1;
        total += 1;
        if tag == "accept" { e.1 += 1; }
        if tag == "panic" { e.2 += 1; }
        if tag == "accept" && j.kind != "append" {
            accepted += 1;
            // n_queries +-1 whose extra / missing sample collides with another one leaves the query *set* unchanged: detect it
            let mut same_queries = false;
            if path_str(&j.path) == "config.n_queries" {
                let q = |v: &Value| -> Option<Value> {
                    let p: StarkProof = serde_json::from_value(v.clone()).ok()?;
                    let evs = if s.layout == "toy" { crate::cmd_stark::verify_toy(&p, s.sb, None, true).1 } else { real::verify_as(&s.layout, &p, s.sb, None, true).1 };
                    evs.iter().filter_map(|e| serde_json::from_str::<Value>(e).ok()).find(|e| e["ev"] == "queries").map(|e| e["out"].clone())
                };
                let mut mv = s.proof.clone();
                *get_mut(&mut mv, &j.path) = j.value.clone().unwrap();
                same_queries = q(&s.proof).is_some() && q(&s.proof) == q(&mv);
            }
            out.line(&json!({"kind":"accepted-mutant","subject":s.id,"layout":s.layout,"path":path_str(&j.path),"class":cls,"mutation":j.kind,"value":j.value,"detail":detail,
                             "same_query_set": same_queries, "proof": if s.layout == "toy" { s.proof.clone() } else { Value::Null }}));
        }
    }
    for ((cls, kind), (n, acc, pan)) in &per { out.line(&json!({"kind":"class","class":cls,"mutation":kind,"tested":n,"accepted":acc,"panics":pan})); }
    out.line(&json!({"summary": true, "subjects": subs.len(), "mutants": total, "accepted": accepted}));
}

// ------------------------------------------------------------------------------------------------------------
// C18: malformed shapes and extreme numbers must produce an error value, never a panic.
// C17: the same extreme assignments under an event budget (fuel) proportional to the proof size.
// ------------------------------------------------------------------------------------------------------------
pub struct Recipe { pub subj: usize, pub label: String, pub edits: Vec<(Path, Edit)> }
#[derive(Clone)]
pub enum Edit { Set(Value), Empty, DropFirst, DropLast, DupLast, Extend2, Rotate, Truncate(usize), Append(Vec<Value>), DupLastN(usize) }

pub fn apply(v: &mut Value, edits: &[(Path, Edit)]) {
    for (p, e) in edits {
        let t = get_mut(v, p);
        match e {
            Edit::Set(x) => *t = x.clone(),
            Edit::Empty => { t.as_array_mut().unwrap().clear(); }
            Edit::DropFirst => { let a = t.as_array_mut().unwrap(); if !a.is_empty() { a.remove(0); } }
            Edit::DropLast => { t.as_array_mut().unwrap().pop(); }
            Edit::DupLast => { let a = t.as_array_mut().unwrap(); if let Some(x) = a.last().cloned() { a.push(x); } }
            Edit::Extend2 => { let a = t.as_array_mut().unwrap(); if let Some(x) = a.last().cloned() { a.push(x.clone()); a.push(x); } }
            Edit::Rotate => { let a = t.as_array_mut().unwrap(); if a.len() > 1 { a.rotate_left(1); } }
            Edit::Truncate(n) => { t.as_array_mut().unwrap().truncate(*n); }
            Edit::Append(vs) => { t.as_array_mut().unwrap().extend(vs.iter().cloned()); }
            Edit::DupLastN(n) => { let a = t.as_array_mut().unwrap(); if let Some(x) = a.last().cloned() { for _ in 0..*n { a.push(x.clone()); } } }
        }
    }
}

pub fn recipes(subs: &[Subject], rng: &mut Rng, numbers_everywhere: bool) -> Vec<Recipe> {
    let mut out = Vec::new();
    for (si, s) in subs.iter().enumerate() {
        let mut leaves = Vec::new(); let mut arrays = Vec::new();
        walk(&s.proof, &mut Vec::new(), &mut leaves, &mut arrays);
        for a in &arrays {
            let len = get(&s.proof, a).as_array().unwrap().len();
            for (l, e) in [("empty", Edit::Empty), ("drop-first", Edit::DropFirst), ("drop-last", Edit::DropLast), ("dup-last", Edit::DupLast), ("extend2", Edit::Extend2), ("rotate", Edit::Rotate), ("truncate-half", Edit::Truncate(len / 2)), ("truncate-1", Edit::Truncate(1))] {
                out.push(Recipe { subj: si, label: format!("{}:{}", class_of(a), l), edits: vec![(a.clone(), e)] });
            }
        }
        // every numeric field of config and public input at every extreme; witness / message values at a sample of positions
        let mut seen_class: std::collections::BTreeMap<String, usize> = Default::default();
        for l in &leaves {
            let ps = path_str(l);
            let structural = ps.starts_with("config") || ps.starts_with("public_input");
            let c = class_of(l);
            let cnt = seen_class.entry(c.clone()).or_default();
            *cnt += 1;
            // thorough: every value of the toy proofs, 40 positions per class of the (much larger) shipped proofs
            let cap = if !numbers_everywhere { 2 } else if s.layout == "toy" { usize::MAX } else { 40 };
            if !structural && *cnt > cap { continue; }
            if structural && *cnt > 6 { continue; }
            for (lab, val) in extremes(get(&s.proof, l), &ps) {
                out.push(Recipe { subj: si, label: format!("{}={}", c, lab), edits: vec![(l.clone(), Edit::Set(val))] });
            }
        }
        // consistent re-declarations of dependent numbers
        let cfg = |k: &[&str]| -> Path { let mut p = vec![Seg::Key("config".into())]; for x in k { p.push(Seg::Key(x.to_string())); } p };
        let felt_at = |p: &Path| -> Felt { Felt::from_hex(get(&s.proof, p).as_str().unwrap()).unwrap() };
        let hexv = |f: Felt| -> Value { json!(format!("{:#x}", f)) };
        let n_inner = get(&s.proof, &cfg(&["fri", "inner_layers"])).as_array().unwrap().len();
        let nseg_early = s.proof["public_input"]["segments"].as_array().map(|a| a.len()).unwrap_or(0);
        for d in [1u64, 2, 8, 12, 40, 1 << 20] {
            // blow-up exponent +d with every height re-declared
            let df = Felt::from(d);
            let mut e = vec![(cfg(&["log_n_cosets"]), Edit::Set(hexv(felt_at(&cfg(&["log_n_cosets"])) + df)))];
            for t in [vec!["traces", "original"], vec!["traces", "interaction"], vec!["composition"]] {
                let mut p = cfg(&t); p.push(Seg::Key("vector".into())); p.push(Seg::Key("height".into()));
                e.push((p.clone(), Edit::Set(hexv(felt_at(&p) + df))));
            }
            e.push((cfg(&["fri", "log_input_size"]), Edit::Set(hexv(felt_at(&cfg(&["fri", "log_input_size"])) + df))));
            for i in 0..n_inner { let mut p = cfg(&["fri", "inner_layers"]); p.push(Seg::Idx(i)); p.push(Seg::Key("vector".into())); p.push(Seg::Key("height".into())); e.push((p.clone(), Edit::Set(hexv(felt_at(&p) + df)))); }
            out.push(Recipe { subj: si, label: format!("redeclare:log_n_cosets+{d}"), edits: e.clone() });
            // trace exponent +d likewise (and log_n_steps)
            let mut e2: Vec<(Path, Edit)> = e[1..].to_vec();
            e2.push((cfg(&["log_trace_domain_size"]), Edit::Set(hexv(felt_at(&cfg(&["log_trace_domain_size"])) + df))));
            e2.push((cfg(&["fri", "log_last_layer_degree_bound"]), Edit::Set(hexv(felt_at(&cfg(&["fri", "log_last_layer_degree_bound"])) + df))));
            let lns = vec![Seg::Key("public_input".into()), Seg::Key("log_n_steps".into())];
            e2.push((lns.clone(), Edit::Set(hexv(felt_at(&lns) + df))));
            out.push(Recipe { subj: si, label: format!("redeclare:log_trace+{d}"), edits: e2 });
        }
        // a much larger trace declared consistently: every height, the step count, and d/4 more FRI layers of step 4 (commitments and
        // witnesses of the new layers are copies): everything up to the OODS check accepts the declarations
        if n_inner >= 1 {
            for d in [8u64, 20, 40] {
                let m = (d / 4) as usize;
                let df = Felt::from(d);
                let mut e: Vec<(Path, Edit)> = Vec::new();
                for t in [vec!["traces", "original"], vec!["traces", "interaction"], vec!["composition"]] {
                    let mut p = cfg(&t); p.push(Seg::Key("vector".into())); p.push(Seg::Key("height".into()));
                    e.push((p.clone(), Edit::Set(hexv(felt_at(&p) + df))));
                }
                e.push((cfg(&["fri", "log_input_size"]), Edit::Set(hexv(felt_at(&cfg(&["fri", "log_input_size"])) + df))));
                e.push((cfg(&["log_trace_domain_size"]), Edit::Set(hexv(felt_at(&cfg(&["log_trace_domain_size"])) + df))));
                let lns = vec![Seg::Key("public_input".into()), Seg::Key("log_n_steps".into())];
                e.push((lns.clone(), Edit::Set(hexv(felt_at(&lns) + df))));
                let mut last_h = Felt::ZERO; let mut last_cfg = Value::Null;
                for i in 0..n_inner {
                    let mut p = cfg(&["fri", "inner_layers"]); p.push(Seg::Idx(i));
                    last_cfg = get(&s.proof, &p).clone();
                    p.push(Seg::Key("vector".into())); p.push(Seg::Key("height".into()));
                    last_h = felt_at(&p) + df;
                    e.push((p.clone(), Edit::Set(hexv(last_h))));
                }
                let mut new_layers = Vec::new();
                for j in 1..=m {
                    let mut c = last_cfg.clone();
                    c["n_columns"] = hexv(Felt::from(16));
                    c["vector"]["height"] = hexv(last_h - Felt::from(4 * j as u64));
                    new_layers.push(c);
                }
                e.push((cfg(&["fri", "inner_layers"]), Edit::Append(new_layers)));
                e.push((cfg(&["fri", "fri_step_sizes"]), Edit::Append((0..m).map(|_| hexv(Felt::from(4))).collect())));
                let nl = cfg(&["fri", "n_layers"]);
                e.push((nl.clone(), Edit::Set(hexv(felt_at(&nl) + Felt::from(m as u64)))));
                e.push((vec![Seg::Key("unsent_commitment".into()), Seg::Key("fri".into()), Seg::Key("inner_layers".into())], Edit::DupLastN(m)));
                e.push((vec![Seg::Key("witness".into()), Seg::Key("fri_witness".into()), Seg::Key("layers".into())], Edit::DupLastN(m)));
                out.push(Recipe { subj: si, label: format!("redeclare:log_trace+{d},{m} more FRI layers"), edits: e });
            }
        }
        // the composition table re-declared with one column, its "rows" being the row hashes of the committed two-column rows
        // (single-column rows are used unhashed, in Montgomery form): the decommitment still authenticates
        {
            let nvf = felt_at(&cfg(&["composition", "vector", "n_verifier_friendly_commitment_layers"]));
            let h = felt_at(&cfg(&["composition", "vector", "height"]));
            let vp = vec![Seg::Key("witness".into()), Seg::Key("composition_decommitment".into()), Seg::Key("values".into())];
            let vals: Vec<Felt> = get(&s.proof, &vp).as_array().map(|a| a.iter().filter_map(|x| x.as_str().and_then(|t| Felt::from_hex(t).ok())).collect()).unwrap_or_default();
            if nvf > h && vals.len() % 2 == 0 && !vals.is_empty() {
                let r = Felt::from_hex_unchecked("0x7FFFFFFFFFFFDF0FFFFFFFFFFFFFFFFFFFFFFFFFFFFFFFFFFFFFFFFFFFFFFE1");
                let rinv = r.inverse().unwrap();
                let hashes: Vec<Value> = vals.chunks(2).map(|c| hexv(starknet_crypto::poseidon_hash_many(&[c[0] * r, c[1] * r]) * rinv)).collect();
                out.push(Recipe { subj: si, label: "redeclare:composition as one column of row hashes".into(),
                    edits: vec![(cfg(&["composition", "n_columns"]), Edit::Set(hexv(Felt::ONE))), (vp, Edit::Set(Value::Array(hashes)))] });
            }
        }
        // continuous page headers (none of the accepted proofs has one): a zero product, a huge size
        {
            let hp = vec![Seg::Key("public_input".into()), Seg::Key("continuous_page_headers".into())];
            if get(&s.proof, &hp).is_array() {
                let hdr = |size: Felt, prod: Felt| json!({"start_address": "0x7", "size": format!("{:#x}", size), "hash": "0x9", "prod": format!("{:#x}", prod)});
                out.push(Recipe { subj: si, label: "page-header:prod=0".into(), edits: vec![(hp.clone(), Edit::Append(vec![hdr(Felt::ONE, Felt::ZERO)]))] });
                out.push(Recipe { subj: si, label: "page-header:prod=5".into(), edits: vec![(hp.clone(), Edit::Append(vec![hdr(Felt::ONE, Felt::from(5))]))] });
                out.push(Recipe { subj: si, label: "page-header:size=2^64".into(), edits: vec![(hp.clone(), Edit::Append(vec![hdr(Felt::TWO.pow(64u64), Felt::from(5))]))] });
                out.push(Recipe { subj: si, label: "page-header:size=p-1".into(), edits: vec![(hp.clone(), Edit::Append(vec![hdr(Felt::ZERO - Felt::ONE, Felt::from(5))]))] });
            }
        }
        // a tiny trace declared consistently (trace 2^k rows, one inner FRI layer, builtin segments emptied): the public memory no
        // longer fits its column
        if n_inner >= 1 && nseg_early > 3 {
            for k in [4u64, 6, 8, 10] {
                let lc = felt_at(&cfg(&["log_n_cosets"]));
                let kf = Felt::from(k);
                let step = 2u64.min(k);
                let mut e: Vec<(Path, Edit)> = Vec::new();
                e.push((cfg(&["log_trace_domain_size"]), Edit::Set(hexv(kf))));
                let lns = vec![Seg::Key("public_input".into()), Seg::Key("log_n_steps".into())];
                e.push((lns, Edit::Set(hexv(Felt::from(k.saturating_sub(4))))));
                for t in [vec!["traces", "original"], vec!["traces", "interaction"], vec!["composition"]] {
                    let mut p = cfg(&t); p.push(Seg::Key("vector".into())); p.push(Seg::Key("height".into()));
                    e.push((p, Edit::Set(hexv(kf + lc))));
                }
                e.push((cfg(&["fri", "log_input_size"]), Edit::Set(hexv(kf + lc))));
                e.push((cfg(&["fri", "n_layers"]), Edit::Set(hexv(Felt::TWO))));
                e.push((cfg(&["fri", "fri_step_sizes"]), Edit::Truncate(1)));
                e.push((cfg(&["fri", "fri_step_sizes"]), Edit::Append(vec![hexv(Felt::from(step))])));
                e.push((cfg(&["fri", "log_last_layer_degree_bound"]), Edit::Set(hexv(Felt::from(k - step)))));
                e.push((cfg(&["fri", "inner_layers"]), Edit::Truncate(1)));
                let mut p0 = cfg(&["fri", "inner_layers"]); p0.push(Seg::Idx(0));
                let mut pc = p0.clone(); pc.push(Seg::Key("n_columns".into())); e.push((pc, Edit::Set(hexv(Felt::from(1u64 << step)))));
                let mut ph = p0.clone(); ph.push(Seg::Key("vector".into())); ph.push(Seg::Key("height".into())); e.push((ph, Edit::Set(hexv(kf + lc - Felt::from(step)))));
                e.push((vec![Seg::Key("unsent_commitment".into()), Seg::Key("fri".into()), Seg::Key("inner_layers".into())], Edit::Truncate(1)));
                e.push((vec![Seg::Key("unsent_commitment".into()), Seg::Key("fri".into()), Seg::Key("last_layer_coefficients".into())], Edit::Truncate(1usize << (k - step))));
                e.push((vec![Seg::Key("witness".into()), Seg::Key("fri_witness".into()), Seg::Key("layers".into())], Edit::Truncate(1)));
                for i in 3..nseg_early {
                    let b = vec![Seg::Key("public_input".into()), Seg::Key("segments".into()), Seg::Idx(i), Seg::Key("begin_addr".into())];
                    let sp = vec![Seg::Key("public_input".into()), Seg::Key("segments".into()), Seg::Idx(i), Seg::Key("stop_ptr".into())];
                    e.push((sp, Edit::Set(get(&s.proof, &b).clone())));
                }
                out.push(Recipe { subj: si, label: format!("redeclare:tiny-trace 2^{k}"), edits: e });
            }
        }
        // the friendly-layer count re-declared consistently everywhere (top level and every vector configuration): nothing bounds it
        for k in [26u64, 33, 40] {
            let v = hexv(Felt::TWO.pow(k));
            let mut e: Vec<(Path, Edit)> = vec![(cfg(&["n_verifier_friendly_commitment_layers"]), Edit::Set(v.clone()))];
            for t in [vec!["traces", "original"], vec!["traces", "interaction"], vec!["composition"]] {
                let mut p = cfg(&t); p.push(Seg::Key("vector".into())); p.push(Seg::Key("n_verifier_friendly_commitment_layers".into()));
                e.push((p, Edit::Set(v.clone())));
            }
            for i in 0..n_inner { let mut p = cfg(&["fri", "inner_layers"]); p.push(Seg::Idx(i)); p.push(Seg::Key("vector".into())); p.push(Seg::Key("n_verifier_friendly_commitment_layers".into())); e.push((p, Edit::Set(v.clone()))); }
            out.push(Recipe { subj: si, label: format!("redeclare:n_verifier_friendly_commitment_layers=2^{k}"), edits: e });
        }
        // segment lengths at extreme values (stop_ptr = begin_addr + X), alone and with the execution segment at the top of the address range
        let nseg = s.proof["public_input"]["segments"].as_array().map(|a| a.len()).unwrap_or(0);
        let seg = |i: usize, k: &str| -> Path { vec![Seg::Key("public_input".into()), Seg::Key("segments".into()), Seg::Idx(i), Seg::Key(k.into())] };
        let t64 = Felt::TWO.pow(64u64);
        for i in 0..nseg {
            let b = felt_at(&seg(i, "begin_addr"));
            for (lab, x) in [("2^20", Felt::TWO.pow(20u64)), ("2^26", Felt::TWO.pow(26u64)), ("2^32", Felt::TWO.pow(32u64)), ("2^64-1", t64 - Felt::ONE), ("2^64-2", t64 - Felt::TWO), ("2^63", Felt::TWO.pow(63u64)), ("2^64", t64), ("p-1", Felt::ZERO - Felt::ONE)] {
                out.push(Recipe { subj: si, label: format!("segment[{i}].len={lab}"), edits: vec![(seg(i, "stop_ptr"), Edit::Set(hexv(b + x)))] });
                if nseg > 1 && i != 1 {
                    out.push(Recipe { subj: si, label: format!("segment[{i}].len={lab} & execution.begin=2^64-2"),
                        edits: vec![(seg(i, "stop_ptr"), Edit::Set(hexv(b + x))), (seg(1, "begin_addr"), Edit::Set(hexv(t64 - Felt::TWO)))] });
                }
            }
        }
        if nseg > 1 { for v in [Felt::TWO.pow(20u64), Felt::TWO.pow(26u64), Felt::TWO.pow(32u64), Felt::TWO.pow(40u64), t64 - Felt::TWO, t64 - Felt::THREE] { out.push(Recipe { subj: si, label: format!("execution.begin={:#x}", v), edits: vec![(seg(1, "begin_addr"), Edit::Set(hexv(v)))] }); } }
        // one more FRI layer declared, nothing supplied for it
        let nl = cfg(&["fri", "n_layers"]);
        out.push(Recipe { subj: si, label: "redeclare:n_layers+1".into(), edits: vec![(nl.clone(), Edit::Set(hexv(felt_at(&nl) + Felt::ONE)))] });
        out.push(Recipe { subj: si, label: "redeclare:n_layers+1,step".into(), edits: vec![(nl.clone(), Edit::Set(hexv(felt_at(&nl) + Felt::ONE))), (cfg(&["fri", "fri_step_sizes"]), Edit::DupLast), (cfg(&["fri", "inner_layers"]), Edit::DupLast)] });
        // random pairs of single edits
        let singles: Vec<usize> = (0..out.len()).filter(|i| out[*i].subj == si && out[*i].edits.len() == 1).collect();
        for _ in 0..(if numbers_everywhere { 400 } else { 120 }) {
            let a = &out[singles[rng.below(singles.len() as u64) as usize]];
            let b = &out[singles[rng.below(singles.len() as u64) as usize]];
            if path_str(&a.edits[0].0).starts_with(&path_str(&b.edits[0].0)) || path_str(&b.edits[0].0).starts_with(&path_str(&a.edits[0].0)) { continue; }
            let r = Recipe { subj: si, label: format!("{} & {}", a.label, b.label), edits: vec![a.edits[0].clone(), b.edits[0].clone()] };
            out.push(r);
        }
    }
    out
}

fn pi_alone(layout: &str, p: &StarkProof) -> Vec<(String, Option<String>)> {
    // validate_public_input / verify_public_input / config validation taken alone
    use swiftness_air::domains::StarkDomains;
    use swiftness_air::layout::LayoutTrait;
    fn g<L: LayoutTrait>(p: &StarkProof) -> Vec<(String, Option<String>)> {
        let mut out = Vec::new();
        let r = guarded(|| { let d = StarkDomains::new(p.config.log_trace_domain_size, p.config.log_n_cosets); L::validate_public_input(&p.public_input, &d).is_ok() });
        out.push(("validate_public_input".to_string(), r.err()));
        let r = guarded(|| L::verify_public_input(&p.public_input).is_ok());
        out.push(("verify_public_input".to_string(), r.err()));
        out
    }
    let mut out = if layout == "toy" { g::<crate::toy::Toy>(p) } else { real::dispatch!(layout, g, p) };
    let r = guarded(|| p.config.validate(p.config.security_bits(), Felt::from(7), Felt::from(3)).is_ok());
    out.push(("StarkConfig::validate".to_string(), r.err()));
    out
}

/// args: <mode: c18|c17> <out.ndjson> <n_toy> <real: none|yes> <full: 0|1>
pub fn run_malformed(args: &[String]) {
    let mode = args[0].as_str();
    let mut out = Out::file(&args[1]);
    let n_toy: u64 = args[2].parse().unwrap();
    let with_real = args[3] == "yes";
    let full = args[4] == "1";
    let mut rng = Rng::from_env(0xC18);
    let mut subs = subjects(n_toy, with_real, &mut rng);
    if with_real {
        // one shipped proof per layout that this build cannot verify (e.g. the dynamic layout exists only under Stone 6): its
        // configuration / public input still drive the validation entry points taken alone
        let build = crate::build_info();
        let have: std::collections::BTreeSet<String> = subs.iter().map(|s| s.layout.clone()).collect();
        let mut added = std::collections::BTreeSet::new();
        for f in real::list_proofs() {
            if format!("{}-{}", f.hash, f.stone) == build || have.contains(&f.layout) || !added.insert(f.layout.clone()) { continue; }
            if let Ok(p) = real::load(&f.text) {
                let sb = p.config.security_bits();
                let v = serde_json::to_value(&p).unwrap();
                let mut leaves = Vec::new(); let mut arrays = Vec::new();
                walk(&v, &mut Vec::new(), &mut leaves, &mut arrays);
                subs.push(Subject { id: f.path.clone(), layout: f.layout.clone(), proof: v, sb, size: leaves.len(), pi_only: true });
            }
        }
    }
    let mut recs = recipes(&subs, &mut rng, full);
    recs.retain(|r| !subs[r.subj].pi_only || r.edits.iter().all(|(p, _)| { let ps = path_str(p); ps.starts_with("config") || ps.starts_with("public_input") }));
    // per-subject budget for C17: events of the honest run, and K * (number of leaves)
    let mut honest_mem: Vec<(u64, u64)> = Vec::new();
    let budgets: Vec<(u64, u64)> = subs.iter().map(|s| {
        let p: StarkProof = serde_json::from_value(s.proof.clone()).unwrap();
        if s.pi_only { honest_mem.push((0, 0)); return (0, 40 * s.size as u64 + 2000); }
        let ((_, used), peak, maxreq) = metered(|| verify_subject(&s.layout, &p, s.sb, None));
        honest_mem.push((peak, maxreq));
        (used, 40 * s.size as u64 + 2000)
    }).collect();
    start_watchdog(120);
    let results = par_map(&recs, n_threads(), |_, r| {
        let s = &subs[r.subj];
        watch(format!("recipe={} | subject={}", r.label, s.id));
        let mut v = s.proof.clone();
        apply(&mut v, &r.edits);
        let p: StarkProof = match serde_json::from_value(v.clone()) { Ok(p) => p, Err(e) => return (json!({"tag":"undeserialisable","detail":format!("{e}")}), Vec::new()) };
        let mut leaves = Vec::new(); let mut arrays = Vec::new();
        walk(&v, &mut Vec::new(), &mut leaves, &mut arrays);
        let budget = 40 * leaves.len() as u64 + 2000;
        let t0 = std::time::Instant::now();
        let ((verdict, used), peak, maxreq) = if s.pi_only { ((Verdict::Reject("not verified by this build".into()), 0), 0, 0) }
            else { metered(|| verify_subject(&s.layout, &p, s.sb, Some(if mode == "c17" { budget } else { 3_000_000 }))) };
        let ms = t0.elapsed().as_millis() as u64;
        // the validation entry points taken alone (C18: must not panic; C17: must not allocate in proportion to a declared number)
        let (alone, apeak, amaxreq) = metered(|| pi_alone(&s.layout, &p));
        (json!({"tag": verdict.tag(), "detail": verdict.detail(), "used": used, "budget": budget, "ms": ms, "size": leaves.len(),
                "peak": peak.max(apeak), "maxreq": maxreq.max(amaxreq), "where": if amaxreq > maxreq { "validation entry points taken alone" } else { "verify" }}), alone)
    });
    let (mut total, mut bad) = (0u64, 0u64);
    let mut sites: std::collections::BTreeMap<String, (u64, Value)> = Default::default();
    let mut max_ratio = 0f64;
    let mut max_ms = 0u64;
    let mut max_mem_ratio = 0f64;
    for (r, (res, alone)) in recs.iter().zip(results.iter()) {
        total += 1;
        let s = &subs[r.subj];
        let tag = res["tag"].as_str().unwrap();
        if mode == "c18" {
            let mut panics: Vec<(String, String)> = Vec::new();
            if tag == "panic" { panics.push(("verify".into(), res["detail"].as_str().unwrap().to_string())); }
            for (f, e) in alone { if let Some(e) = e { panics.push((f.clone(), e.clone())); } }
            for (entry, where_) in panics {
                bad += 1;
                let site = where_.split('|').next().unwrap_or("").to_string();
                // stable key: file + function (line numbers move)
                let key = format!("{}@{}", entry, site_key(&site));
                let e = sites.entry(key).or_insert((0, json!({"entry": entry, "site": site, "message": where_.split('|').nth(1).unwrap_or(""), "layout": s.layout, "recipe": r.label, "subject": s.id,
                    "edits": r.edits.iter().map(|(p, _)| path_str(p)).collect::<Vec<_>>()})));
                e.0 += 1;
            }
        } else {
            let used = res["used"].as_u64().unwrap_or(0);
            let budget = res["budget"].as_u64().unwrap_or(1);
            let ratio = used as f64 / res["size"].as_u64().unwrap_or(1).max(1) as f64;
            if ratio > max_ratio { max_ratio = ratio; }
            let ms = res["ms"].as_u64().unwrap_or(0);
            if ms > max_ms { max_ms = ms; }
            // memory: 2 KiB per value of the proof + 1 MiB covers every honest run with a wide margin (measured: see summary.max_bytes_per_value)
            let size = res["size"].as_u64().unwrap_or(1).max(1);
            let (peak, maxreq) = (res["peak"].as_u64().unwrap_or(0), res["maxreq"].as_u64().unwrap_or(0));
            let mem_budget = 2048 * size + (1 << 20);
            let mr = peak as f64 / size as f64; if mr > max_mem_ratio { max_mem_ratio = mr; }
            if peak > mem_budget || maxreq > mem_budget {
                bad += 1;
                out.line(&json!({"kind":"work","subject":s.id,"layout":s.layout,"recipe":r.label,"used":used,"budget":mem_budget,"ms":ms,
                    "why": format!("memory: peak {} bytes, largest single request {} bytes in {} (budget 2 KiB x values + 1 MiB = {})", peak, maxreq, res["where"].as_str().unwrap_or(""), mem_budget)}));
            }
            if tag == "fuel" || ms > 20_000 {
                bad += 1;
                out.line(&json!({"kind":"work","subject":s.id,"layout":s.layout,"recipe":r.label,"used":used,"budget":budget,"ms":ms,"why": if tag == "fuel" { "event budget (40 x leaves + 2000) exhausted" } else { "wall clock above 20 s" }}));
            }
        }
    }
    for (k, (n, ex)) in &sites { out.line(&json!({"kind":"panic-site","key":k,"count":n,"example":ex})); }
    out.line(&json!({"summary": true, "mode": mode, "subjects": subs.len(), "recipes": total, "bad": bad, "honest_events": budgets.iter().map(|b| b.0).collect::<Vec<_>>(),
                     "max_events_per_leaf": max_ratio, "max_ms": max_ms, "max_bytes_per_value": max_mem_ratio,
                     "honest_peak_bytes": honest_mem.iter().map(|b| b.0).collect::<Vec<_>>(), "honest_largest_request": honest_mem.iter().map(|b| b.1).collect::<Vec<_>>()}));
}

/// "crates/fri/src/layer.rs:99 in compute_next_layer (via mod.rs:2207)" -> "crates/fri/src/layer.rs:compute_next_layer"
pub fn site_key(site: &str) -> String {
    let file = site.split(':').next().unwrap_or(site);
    if let Some(i) = site.find(" in ") {
        let f = site[i + 4..].split(' ').next().unwrap_or("");
        let f = f.rsplit("::").next().unwrap_or(f);
        format!("{file}:{f}")
    } else {
        // direct location file:line -> keep the line (index / assert sites are what identifies the defect)
        site.to_string()
    }
}
