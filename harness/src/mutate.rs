//! Generic mutation engine over the serde_json form of a StarkProof: every leaf the verifier can read is a
//! position with a JSON path; arrays support deletion / insertion.  Used by C02 (tamper evidence),
//! C17 (extreme numbers) and C18 (malformed shapes).
use serde_json::{json, Value};
use starknet_crypto::Felt;

#[derive(Clone, Debug)]
pub enum Seg { Key(String), Idx(usize) }
pub type Path = Vec<Seg>;

pub fn path_str(p: &Path) -> String {
    let mut s = String::new();
    for seg in p {
        match seg { Seg::Key(k) => { if !s.is_empty() { s.push('.'); } s.push_str(k); } Seg::Idx(i) => s.push_str(&format!("[{i}]")) }
    }
    s
}
/// class of a position: the path with array indices removed (FRI layers keep their index: layers differ in role)
pub fn class_of(p: &Path) -> String {
    let mut s = String::new();
    let mut prev = String::new();
    for seg in p {
        match seg {
            Seg::Key(k) => { if !s.is_empty() { s.push('.'); } s.push_str(k); prev = k.clone(); }
            Seg::Idx(i) => { if prev == "layers" || prev == "inner_layers" { s.push_str(&format!("[{i}]")); } else { s.push_str("[]"); } }
        }
    }
    s
}
pub fn get<'a>(v: &'a Value, p: &Path) -> &'a Value {
    let mut cur = v;
    for seg in p { cur = match seg { Seg::Key(k) => &cur[k], Seg::Idx(i) => &cur[*i] }; }
    cur
}
pub fn get_mut<'a>(v: &'a mut Value, p: &Path) -> &'a mut Value {
    let mut cur = v;
    for seg in p { cur = match seg { Seg::Key(k) => cur.get_mut(k).expect("key"), Seg::Idx(i) => cur.get_mut(*i).expect("idx") }; }
    cur
}
/// all leaves (strings / numbers) and all arrays
pub fn walk(v: &Value, prefix: &mut Path, leaves: &mut Vec<Path>, arrays: &mut Vec<Path>) {
    match v {
        Value::Object(m) => { for (k, x) in m { prefix.push(Seg::Key(k.clone())); walk(x, prefix, leaves, arrays); prefix.pop(); } }
        Value::Array(a) => {
            arrays.push(prefix.clone());
            for (i, x) in a.iter().enumerate() { prefix.push(Seg::Idx(i)); walk(x, prefix, leaves, arrays); prefix.pop(); }
        }
        Value::String(_) | Value::Number(_) => leaves.push(prefix.clone()),
        _ => {}
    }
}

/// Numeric kind of a leaf as serialised: hex felt string, or JSON number (u8 / u64 / usize fields).
pub fn is_felt(v: &Value) -> bool { v.is_string() }

pub fn replace_plus_one(v: &Value) -> Value {
    match v {
        Value::String(s) => json!(format!("{:#x}", Felt::from_hex(s).unwrap() + Felt::ONE)),
        Value::Number(n) => { let x = n.as_u64().unwrap(); json!(if x == u64::MAX { x - 1 } else { x + 1 }) }
        o => o.clone(),
    }
}
pub fn replace_with(v: &Value, f: Felt, small: u64) -> Value {
    match v { Value::String(_) => json!(format!("{:#x}", f)), Value::Number(_) => json!(small), o => o.clone() }
}
/// extreme values for C17/C18: (label, value) for a leaf of this kind; number leaves are clamped to the field's type
pub fn extremes(v: &Value, path: &str) -> Vec<(String, Value)> {
    let p_minus_1 = Felt::ZERO - Felt::ONE;
    let mut out = Vec::new();
    match v {
        Value::String(_) => {
            let t64 = Felt::TWO.pow(64u64);
            for (l, f) in [("0", Felt::ZERO), ("1", Felt::ONE), ("2", Felt::TWO), ("2^16", Felt::TWO.pow(16u64)), ("2^40", Felt::TWO.pow(40u64)), ("2^63", Felt::TWO.pow(63u64)),
                           ("2^64-3", t64 - Felt::THREE), ("2^64-2", t64 - Felt::TWO), ("2^64-1", t64 - Felt::ONE), ("2^64", t64), ("2^64+1", t64 + Felt::ONE), ("2^64+10", t64 + Felt::from(10)),
                           ("3*2^64+1", t64 * Felt::THREE + Felt::ONE), ("2^128", Felt::TWO.pow(128u64)), ("2^128+1", Felt::TWO.pow(128u64) + Felt::ONE), ("p-1", p_minus_1), ("p-2", p_minus_1 - Felt::ONE),
                           // field quotients: small when multiplied by 2 / 3 / 4 / 16, huge as integers
                           ("21/2", Felt::from(21) * Felt::TWO.inverse().unwrap()), ("1/3", Felt::THREE.inverse().unwrap()), ("41/4", Felt::from(41) * Felt::from(4).inverse().unwrap()),
                           ("33/16", Felt::from(33) * Felt::from(16).inverse().unwrap())] {
                out.push((l.to_string(), json!(format!("{:#x}", f))));
            }
        }
        Value::Number(_) => {
            let max: u64 = if path.ends_with("n_bits") { 255 } else { u64::MAX };
            for x in [0u64, 1, 2, 65536, 1 << 40, u64::MAX] { let y = x.min(max); out.push((format!("{y}"), json!(y))); }
            out.dedup_by(|a, b| a.0 == b.0);
        }
        _ => {}
    }
    out
}
