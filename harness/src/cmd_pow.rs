//! C09: drive verify_pow / Config::validate / UnsentCommitment::commit and record traces.
use crate::cmd_vector::annotate;
use crate::hashes;
use crate::util::*;
use serde_json::json;
use starknet_crypto::Felt;
use swiftness_pow::{config::Config, pow::{verify_pow, UnsentCommitment}};
use swiftness_transcript::{transcript::Transcript, verif};

pub fn lz(h: &[u8]) -> u32 {
    let mut n = 0;
    for b in h { if *b == 0 { n += 8; } else { n += b.leading_zeros(); break; } }
    n
}
pub fn h2(digest: &[u8; 32], n_bits: u8, nonce: u64) -> [u8; 32] {
    let mut pre = Vec::with_capacity(41);
    pre.extend_from_slice(&0x0123456789abcdedu64.to_be_bytes());
    pre.extend_from_slice(digest);
    pre.push(n_bits);
    let h1 = hashes::pow_hash(&pre);
    let mut pre2 = h1.to_vec();
    pre2.extend_from_slice(&nonce.to_be_bytes());
    hashes::pow_hash(&pre2)
}

/// args: <trace.ndjson> <n_digests> <grind_bits>
pub fn run(args: &[String]) {
    let mut t = Out::file(&args[0]);
    let n_digests: u64 = args[1].parse().unwrap();
    let grind: u32 = args[2].parse().unwrap();
    let mut rng = Rng::from_env(0xC09);
    // 1. config validation for every u8
    t.line(&json!({"ev":"reset","case":"powcfg"}));
    for n in 0..=255u8 {
        let ok = Config { n_bits: n }.validate().is_ok();
        t.line(&json!({"ev":"powcfg","n_bits":n,"ok":ok}));
    }
    // 2. verify_pow on (digest, n, nonce) around the actual number of leading zeros
    let mut case = 0u64;
    let mut one = |t: &mut Out, digest: [u8; 32], n: u8, nonce: u64| {
        let _ = verif::take();
        let r = guarded(|| verify_pow(digest, n, nonce));
        let evs = verif::take();
        t.line(&json!({"ev":"reset","case":format!("pow{case}"),"n_bits":n,"nonce":format!("{:#x}", nonce)}));
        case += 1;
        for e in &evs { t.line(&annotate(e)); }
        match r {
            Ok(r) => t.line(&json!({"ev":"pow.result","ok":r.is_ok()})),
            Err(p) => t.line(&json!({"ev":"pow.panic","where":p})),
        }
    };
    for d in 0..n_digests {
        let digest = if d == 0 { [0u8; 32] } else { rng.felt().to_bytes_be() };
        // for the difficulty n baked into the first hash, grind a nonce whose h2 has many zero bits
        for n in [0u8, 1, 7, 8, 9, 15, 16, 17, 20, 24, 31, 32, 33, 50, 51, 63, 64, 65, 66, 67, 72, 100, 127, 128] {
            let mut best = (0u64, 0u32);
            let tries = 1u64 << grind.min(if n as u32 <= grind + 2 { grind } else { 8 });
            let start = rng.next();
            for i in 0..tries {
                let nonce = if i == 0 { 0 } else if i == 1 { u64::MAX } else { start.wrapping_add(i) };
                let z = lz(&h2(&digest, n, nonce));
                if z >= best.1 { best = (nonce, z); }
                if z >= n as u32 && n > 0 && i > 2 { break; }
            }
            one(&mut t, digest, n, best.0);                         // nonce with the most zeros found
            one(&mut t, digest, n, rng.next());                     // arbitrary nonce
            one(&mut t, digest, n, 0);
            one(&mut t, digest, n, u64::MAX);
        }
        // exact boundary: for a fixed nonce, the verdict flips exactly at n = lz + 1 (each n has its own h1!)
        for n in 0..=128u8 {
            if n % 4 == (d % 4) as u8 || n <= 24 { one(&mut t, digest, n, d.wrapping_mul(0x9E37) ^ 0x5555); }
        }
    }
    // 3. commit(): check on the current digest, then absorb
    for c in 0..(n_digests * 8) {
        let seed = rng.felt();
        let mut tr = Transcript::new(seed);
        if c % 2 == 1 { let _ = tr.random_felt_to_prover(); }
        let n: u8 = [0u8, 4, 8, 12, 16, 20][(c % 6) as usize];
        let digest = tr.digest().to_bytes_be();
        // find an accepting nonce half of the time
        let mut nonce = rng.next();
        // accepting nonces are searched from 0 or from a random 64-bit start (the whole nonce is absorbed, not its low word)
        if c % 4 < 2 { let mut k = if c % 8 < 4 { 0u64 } else { rng.next() | (1u64 << 40) }; while lz(&h2(&digest, n, k)) < n as u32 { k = k.wrapping_add(1); } nonce = k; }
        let _ = verif::take();
        t.line(&json!({"ev":"reset","case":format!("commit{c}")}));
        t.line(&json!({"ev":"commit.begin","digest":hex(tr.digest()),"n_bits":n,"nonce":format!("{:#x}", nonce)}));
        let r = guarded(|| UnsentCommitment { nonce }.commit(&mut tr, &Config { n_bits: n }));
        for e in &verif::take() { t.line(&annotate(e)); }
        match r {
            Ok(r) => t.line(&json!({"ev":"commit.end","ok":r.is_ok(),"digest":hex(tr.digest()),"counter":hex(tr.counter())})),
            Err(p) => t.line(&json!({"ev":"commit.panic","where":p})),
        }
        let _ = Felt::ZERO;
    }
}
