//! C03 (and the real-proof parts of C08/C10/C13): every shipped proof against every layout of this build.
use crate::cmd_stark::{proof_event, Verdict};
use crate::cmd_table::annotate_all;
use crate::real::{self, dispatch};
use crate::util::*;
use serde_json::{json, Value};
use starknet_crypto::{pedersen_hash, Felt};
use swiftness_air::layout::{self, GenericLayoutTrait, LayoutTrait};
use swiftness_stark::types::StarkProof;

/// Expected (program hash, output hash) computed from the raw file's public memory (independent of the parser).
pub fn expected_hashes(file: &Value) -> Option<(Felt, Felt)> {
    let pi = &file["public_input"];
    let seg = &pi["memory_segments"];
    let mut mem: std::collections::BTreeMap<u64, Felt> = Default::default();
    for c in pi["public_memory"].as_array()? {
        if c["page"].as_u64()? != 0 { continue; }
        mem.insert(c["address"].as_u64()?, Felt::from_hex(c["value"].as_str()?).ok()?);
    }
    let initial_pc = seg["program"]["begin_addr"].as_u64()?;
    let initial_ap = seg["execution"]["begin_addr"].as_u64()?;
    let (ob, os) = (seg["output"]["begin_addr"].as_u64()?, seg["output"]["stop_ptr"].as_u64()?);
    let chain = |addrs: std::ops::Range<u64>| -> Option<Felt> {
        let n = addrs.end - addrs.start;
        let mut h = Felt::ZERO;
        for a in addrs { h = pedersen_hash(&h, mem.get(&a)?); }
        Some(pedersen_hash(&h, &Felt::from(n)))
    };
    // program cells: addresses initial_pc .. initial_fp - 2 (exclusive), initial_fp = initial_ap
    Some((chain(initial_pc..initial_ap - 2)?, chain(ob..os)?))
}

fn pe<L: LayoutTrait + GenericLayoutTrait>(p: &StarkProof, layout_name: &str, sb: &Felt) -> Value {
    let n1 = L::get_num_columns_first(&p.public_input).unwrap_or(0);
    let n2 = L::get_num_columns_second(&p.public_input).unwrap_or(0);
    proof_event::<L>(p, real::n_interaction_elements(layout_name), n1, n2, sb)
}
pub fn proof_event_for(layout_name: &str, p: &StarkProof, sb: &Felt) -> Value {
    dispatch!(layout_name, pe, p, layout_name, sb)
}

/// Stone's own log of the interaction (the `annotations` of the proof file), lexed independently of the parser:
/// the verifier->prover messages, as canonical hex strings.
pub fn stone_annotations(file: &Value) -> Option<Value> {
    let mut ie: Vec<String> = Vec::new();
    let mut evalpts: Vec<String> = Vec::new();
    let mut queries: Vec<String> = Vec::new();
    let (mut alpha, mut z, mut alpha2) = (None, None, None);
    let canon = |h: &str| -> Option<String> { Felt::from_hex(h).ok().map(|f| hex(&f)) };
    for l in file["annotations"].as_array()? {
        let l = l.as_str()?;
        if !l.starts_with("V->P:") { continue; }
        let val = |tag: &str| -> Option<String> { let i = l.rfind(tag)? + tag.len(); let j = l[i..].find(')')? + i; Some(l[i..j].to_string()) };
        if l.contains("/STARK/Interaction: Interaction element #") { ie.push(canon(&val("Field Element(")?)?); }
        else if l.contains("/STARK/Original: Constraint polynomial random element") { alpha = canon(&val("Field Element(")?); }
        else if l.contains("OODS values: Evaluation point") { z = canon(&val("Field Element(")?); }
        else if l.contains("/Out Of Domain Sampling: Constraint polynomial random element") { alpha2 = canon(&val("Field Element(")?); }
        else if l.contains("/FRI/Commitment/") && l.contains("Evaluation point") { evalpts.push(canon(&val("Field Element(")?)?); }
        else if l.contains("/FRI/QueryIndices:") { let n: u64 = val("Number(")?.parse().ok()?; queries.push(format!("{:#x}", n)); }
    }
    Some(json!({"ie": ie, "alpha": alpha?, "z": z?, "alpha2": alpha2?, "evalpts": evalpts, "queries": queries}))
}

/// args: <out.ndjson> <trace.ndjson> [only-matching]
pub fn run_matrix(args: &[String]) {
    let mut out = Out::file(&args[0]);
    let mut trace = Out::file(&args[1]);
    let only_matching = args.get(2).map(|s| s == "only-matching").unwrap_or(false);
    let build = crate::build_info();
    let files = real::list_proofs();
    let mut jobs: Vec<(usize, &'static str)> = Vec::new();
    for (fi, f) in files.iter().enumerate() {
        for l in real::LAYOUTS { if !only_matching || l == f.layout { jobs.push((fi, l)); } }
    }
    let results = par_map(&jobs, n_threads(), |_, (fi, as_layout)| {
        let f = &files[*fi];
        let mut rec = json!({"file": f.path, "file_layout": f.layout, "file_hash": f.hash, "file_stone": f.stone, "build": build, "as_layout": as_layout});
        let proof = match real::load(&f.text) { Ok(p) => p, Err(e) => { rec["verdict"] = json!("load-failed"); rec["detail"] = json!(e); return (rec, Vec::new()); } };
        let raw: Value = serde_json::from_str(&f.text).unwrap();
        rec["nvf"] = json!(raw["proof_parameters"]["n_verifier_friendly_commitment_layers"].as_u64().unwrap_or(0));
        rec["log_eval"] = json!(to_u64(&(proof.config.log_trace_domain_size + proof.config.log_n_cosets)).unwrap_or(0));
        let sb = proof.config.security_bits();
        let (v, events, _) = real::verify_as(as_layout, &proof, sb, Some(5_000_000), true);
        rec["verdict"] = json!(v.tag());
        rec["detail"] = json!(v.detail());
        let mut tl: Vec<Value> = Vec::new();
        if let Verdict::Accept(ph, oh) = &v {
            let exp = expected_hashes(&raw);
            rec["hashes_ok"] = json!(exp.map(|(a, b)| a == *ph && b == *oh));
            rec["program_hash"] = json!(hex(ph));
            rec["output_hash"] = json!(hex(oh));
            // serde round trip
            let s = serde_json::to_string(&proof).unwrap();
            let rt: Result<StarkProof, _> = serde_json::from_str(&s);
            rec["roundtrip_ok"] = json!(match rt {
                Ok(p2) => { let (v2, _, _) = real::verify_as(as_layout, &p2, sb, Some(5_000_000), false); p2 == proof && matches!(v2, Verdict::Accept(a, b) if a == *ph && b == *oh) }
                Err(_) => false,
            });
        }
        if !matches!(v, Verdict::Panic(_) | Verdict::Fuel) && *as_layout == f.layout {
            tl.push(json!({"ev":"reset","case":{"file": f.path, "as_layout": as_layout, "build": build}}));
            let mut pev = proof_event_for(as_layout, &proof, &sb);
            if let Some(a) = stone_annotations(&raw) { pev["ann"] = a; }
            tl.push(pev);
            for e in annotate_all(&events) { tl.push(e); }
            let (ph, oh) = match &v { Verdict::Accept(a, b) => (hex(a), hex(b)), _ => ("0x0".into(), "0x0".into()) };
            tl.push(json!({"ev":"result","ok": matches!(v, Verdict::Accept(..)), "program_hash": ph, "output_hash": oh}));
        }
        (rec, tl)
    });
    for (rec, tl) in results {
        out.line(&rec);
        for l in tl { trace.line(&l); }
    }
    // the in-tree fixture: accepted exactly by the recursive / keccak_160_lsb / stone5 build
    let fx = real::fixture_proof();
    let sb = Felt::from_hex_unchecked("0x32");
    for l in real::LAYOUTS {
        let (v, events, _) = real::verify_as(l, &fx, sb, Some(5_000_000), true);
        let mut rec = json!({"file": "fixture", "file_layout": "recursive", "file_hash": "keccak_160_lsb", "file_stone": "stone5", "build": build, "as_layout": l,
                             "verdict": v.tag(), "detail": v.detail(), "nvf": 9999, "log_eval": 0});
        if let Verdict::Accept(ph, oh) = &v {
            let s = serde_json::to_string(&fx).unwrap();
            let p2: StarkProof = serde_json::from_str(&s).unwrap();
            let (v2, _, _) = real::verify_as(l, &p2, sb, Some(5_000_000), false);
            rec["roundtrip_ok"] = json!(p2 == fx && matches!(v2, Verdict::Accept(a, b) if a == *ph && b == *oh));
            rec["program_hash"] = json!(hex(ph));
            rec["output_hash"] = json!(hex(oh));
            // expected hashes from the fixture's own main page: program = addresses 1..initial_ap-2, output = output segment
            let pi = &fx.public_input;
            let cell = |a: u64| pi.main_page.iter().find(|c| c.address == Felt::from(a)).map(|c| c.value);
            let ap = to_u64(&pi.segments[1].begin_addr).unwrap();
            let (ob, os) = (to_u64(&pi.segments[2].begin_addr).unwrap(), to_u64(&pi.segments[2].stop_ptr).unwrap());
            let chain = |r: std::ops::Range<u64>| -> Option<Felt> { let n = r.end - r.start; let mut h = Felt::ZERO; for a in r { h = pedersen_hash(&h, &cell(a)?); } Some(pedersen_hash(&h, &Felt::from(n))) };
            rec["hashes_ok"] = json!(chain(1..ap - 2) == Some(*ph) && chain(ob..os) == Some(*oh));
        }
        out.line(&rec);
        if l == "recursive" && !matches!(v, Verdict::Panic(_) | Verdict::Fuel) {
            trace.line(&json!({"ev":"reset","case":{"file":"fixture","as_layout":l,"build":build}}));
            trace.line(&proof_event_for(l, &fx, &sb));
            for e in annotate_all(&events) { trace.line(&e); }
            let (ph, oh) = match &v { Verdict::Accept(a, b) => (hex(a), hex(b)), _ => ("0x0".into(), "0x0".into()) };
            trace.line(&json!({"ev":"result","ok": matches!(v, Verdict::Accept(..)), "program_hash": ph, "output_hash": oh}));
        }
    }
    let _ = layout::stark_curve::ALPHA;
}
