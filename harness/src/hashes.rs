//! The build's commitment / PoW hash primitives, written from the property statements
//! (C04: "Keccak/Blake2s, low 160/248 bits of the digest of the two 32-byte big-endian children"),
//! independent of the code under test.
use starknet_crypto::Felt;

pub const IS_KECCAK: bool = cfg!(any(feature = "keccak_160_lsb", feature = "keccak_248_lsb"));
pub const MASK_BITS: usize = if cfg!(any(feature = "keccak_160_lsb", feature = "blake2s_160_lsb")) { 160 } else { 248 };

pub fn raw_hash(data: &[u8]) -> [u8; 32] {
    if IS_KECCAK {
        use sha3::{Digest, Keccak256};
        Keccak256::digest(data).into()
    } else {
        use blake2::{Blake2s256, Digest};
        Blake2s256::digest(data).into()
    }
}
pub fn keccak(data: &[u8]) -> [u8; 32] {
    use sha3::{Digest, Keccak256};
    Keccak256::digest(data).into()
}
pub fn blake2s(data: &[u8]) -> [u8; 32] {
    use blake2::{Blake2s256, Digest};
    Blake2s256::digest(data).into()
}
/// low MASK_BITS bits of the digest, read big-endian
pub fn masked(data: &[u8]) -> Felt {
    let h = raw_hash(data);
    Felt::from_bytes_be_slice(&h[32 - MASK_BITS / 8..])
}
pub fn masked2(x: &Felt, y: &Felt) -> Felt {
    let mut d = Vec::with_capacity(64);
    d.extend(x.to_bytes_be());
    d.extend(y.to_bytes_be());
    masked(&d)
}
pub fn masked_many(xs: &[Felt]) -> Felt {
    let d: Vec<u8> = xs.iter().flat_map(|x| x.to_bytes_be().to_vec()).collect();
    masked(&d)
}
/// 2^256 mod p
pub fn montgomery_r() -> Felt {
    Felt::TWO.pow(256u64)
}

/// PoW hash of the build: Keccak-256 or Blake2s-256, unmasked
pub fn pow_hash(data: &[u8]) -> [u8; 32] { raw_hash(data) }
