//! Independent Merkle / table-commitment builder (written from the conventions in DESIGN.md
//! Appendix A, not from the code under test).
use crate::hashes;
use starknet_crypto::{poseidon_hash, poseidon_hash_many, Felt};

pub fn node_hash(x: &Felt, y: &Felt, friendly: bool) -> Felt {
    if friendly { poseidon_hash(*x, *y) } else { hashes::masked2(x, y) }
}

pub struct Tree {
    pub height: u64,
    /// levels[d] = nodes at depth d (levels[0] = [root])
    pub levels: Vec<Vec<Felt>>,
}
impl Tree {
    pub fn root(&self) -> Felt { self.levels[0][0] }
}
pub fn build_tree(leaves: Vec<Felt>, nvf: u64) -> Tree {
    assert!(leaves.len().is_power_of_two());
    let height = leaves.len().trailing_zeros() as u64;
    let mut levels = vec![leaves];
    let mut d = height;
    while d > 0 {
        let cur = levels.last().unwrap();
        let f = nvf >= d;
        let next: Vec<Felt> = cur.chunks(2).map(|c| node_hash(&c[0], &c[1], f)).collect();
        levels.push(next);
        d -= 1;
    }
    levels.reverse();
    Tree { height, levels }
}
/// siblings of the queried sub-forest, bottom-up, left to right (queries sorted, distinct)
pub fn auth_path(t: &Tree, queries: &[u64]) -> Vec<Felt> {
    let mut out = Vec::new();
    let mut cur: Vec<u64> = queries.to_vec();
    let mut d = t.height;
    while d > 0 {
        let mut next = Vec::new();
        let mut i = 0;
        while i < cur.len() {
            let x = cur[i];
            if x % 2 == 0 && i + 1 < cur.len() && cur[i + 1] == x + 1 {
                i += 2;
            } else {
                out.push(t.levels[d as usize][(x ^ 1) as usize]);
                i += 1;
            }
            next.push(x / 2);
        }
        cur = next;
        d -= 1;
    }
    out
}
pub fn row_hash(row: &[Felt], bottom_friendly: bool) -> Felt {
    let r = hashes::montgomery_r();
    let m: Vec<Felt> = row.iter().map(|v| *v * r).collect();
    if row.len() == 1 { m[0] } else if bottom_friendly { poseidon_hash_many(&m) } else { hashes::masked_many(&m) }
}
pub fn commit_table(rows: &[Vec<Felt>], nvf: u64) -> Tree {
    let height = rows.len().trailing_zeros() as u64;
    build_tree(rows.iter().map(|r| row_hash(r, nvf >= height + 1)).collect(), nvf)
}
