//! The 25 shipped Stone proofs: loading through /repo/proof_parser + /repo/cli/src/transform.rs, and
//! dispatch of the generic verifier over the seven real layouts compiled into this binary.
use crate::cmd_stark::Verdict;
use crate::util::*;
use starknet_crypto::Felt;
use swiftness_air::layout::{self, GenericLayoutTrait, LayoutTrait};
use swiftness_air::public_memory::PublicInput;
use swiftness_stark::types::StarkProof;
use swiftness_transcript::verif;

#[path = "/repo/cli/src/transform.rs"]
pub mod transform;
use transform::TransformTo;

pub const LAYOUTS: [&str; 7] = ["dex", "dynamic", "recursive", "recursive_with_poseidon", "small", "starknet", "starknet_with_keccak"];

pub struct ProofFile {
    pub path: String,
    pub layout: String,       // directory name = layout the proof was produced for
    pub hash: String,         // commitment hash feature the file was produced with
    pub stone: String,
    pub text: String,
}

pub fn list_proofs() -> Vec<ProofFile> {
    let mut out = Vec::new();
    for l in LAYOUTS {
        let dir = format!("/repo/examples/proofs/{l}");
        let mut names: Vec<String> = std::fs::read_dir(&dir).map(|d| d.filter_map(|e| e.ok()).map(|e| e.file_name().to_string_lossy().to_string()).collect()).unwrap_or_default();
        names.sort();
        for n in names {
            if !n.ends_with("proof.json") { continue; }
            let path = format!("{dir}/{n}");
            let text = std::fs::read_to_string(&path).unwrap();
            let v: serde_json::Value = serde_json::from_str(&text).unwrap();
            let ch = v["proof_parameters"]["commitment_hash"].as_str().unwrap_or("");
            let hash = match ch { "keccak256_masked160_lsb" => "keccak_160_lsb", "keccak256_masked248_lsb" => "keccak_248_lsb", "blake256_masked160_lsb" => "blake2s_160_lsb", "blake256_masked248_lsb" => "blake2s_248_lsb", o => panic!("commitment hash {o}") };
            let stone = if n.contains("stone5") { "stone5" } else { "stone6" };
            out.push(ProofFile { path, layout: l.to_string(), hash: hash.into(), stone: stone.into(), text });
        }
    }
    out
}

/// The in-tree fixture proof (recursive layout, keccak_160_lsb, stone5), assembled as crates/stark/src/tests/proof.rs does.
pub fn fixture_proof() -> StarkProof {
    StarkProof {
        config: swiftness_stark::fixtures::config::get(),
        public_input: swiftness_air::fixtures::public_input::get(),
        unsent_commitment: swiftness_stark::fixtures::unsent_commitment::get(),
        witness: swiftness_stark::fixtures::witness::get(),
    }
}

/// parse + transform, catching panics (C19)
pub fn load(text: &str) -> Result<StarkProof, String> {
    let t = text.to_string();
    match guarded(move || swiftness_proof_parser::parse(t).map(|p| p.transform_to())) {
        Ok(Ok(p)) => Ok(p),
        Ok(Err(e)) => Err(format!("error: {e}")),
        Err(p) => Err(format!("panic: {p}")),
    }
}

macro_rules! dispatch {
    ($layout:expr, $f:ident, $($arg:expr),*) => {
        match $layout {
            "dex" => $f::<swiftness_air::layout::dex::Layout>($($arg),*),
            "dynamic" => $f::<swiftness_air::layout::dynamic::Layout>($($arg),*),
            "recursive" => $f::<swiftness_air::layout::recursive::Layout>($($arg),*),
            "recursive_with_poseidon" => $f::<swiftness_air::layout::recursive_with_poseidon::Layout>($($arg),*),
            "small" => $f::<swiftness_air::layout::small::Layout>($($arg),*),
            "starknet" => $f::<swiftness_air::layout::starknet::Layout>($($arg),*),
            "starknet_with_keccak" => $f::<swiftness_air::layout::starknet_with_keccak::Layout>($($arg),*),
            o => panic!("layout {o}"),
        }
    };
}
pub(crate) use dispatch;

fn verify_g<L: LayoutTrait + GenericLayoutTrait>(proof: &StarkProof, sb: Felt, fuel: Option<u64>, record: bool) -> (Verdict, Vec<String>, u64) {
    let _ = verif::take();
    verif::set_record(record);
    verif::set_fuel(fuel);
    let r = guarded(|| proof.verify::<L>(sb));
    let used = verif::used();
    verif::set_fuel(None);
    verif::set_record(true);
    let events = verif::take();
    let v = match r {
        Ok(Ok((a, b))) => Verdict::Accept(a, b),
        Ok(Err(e)) => Verdict::Reject(format!("{e:?}").chars().take(160).collect()),
        Err(p) => if p.contains(verif::FUEL_EXHAUSTED) { Verdict::Fuel } else { Verdict::Panic(p) },
    };
    (v, events, used)
}
/// Run the real verifier built for `layout` on a proof.
pub fn verify_as(layout: &str, proof: &StarkProof, sb: Felt, fuel: Option<u64>, record: bool) -> (Verdict, Vec<String>, u64) {
    dispatch!(layout, verify_g, proof, sb, fuel, record)
}

fn consts_g<L: LayoutTrait + GenericLayoutTrait>(pi: &PublicInput) -> (usize, usize, usize, Option<usize>, Option<usize>) {
    (L::MASK_SIZE, L::CONSTRAINT_DEGREE, L::N_CONSTRAINTS, L::get_num_columns_first(pi), L::get_num_columns_second(pi))
}
pub fn layout_consts(layout: &str, pi: &PublicInput) -> (usize, usize, usize, Option<usize>, Option<usize>) {
    dispatch!(layout, consts_g, pi)
}
/// number of interaction elements squeezed after the first trace commitment
pub fn n_interaction_elements(layout: &str) -> usize {
    match layout { "dex" | "small" => 3, "recursive" | "recursive_with_poseidon" | "starknet" | "starknet_with_keccak" => 6, "dynamic" => 8, _ => 0 }
}
