#![allow(dead_code)]
mod util;
#[global_allocator]
static METER: util::Meter = util::Meter;
mod cmd_domains;
mod cmd_transcript;
mod cmd_vector;
mod cmd_table;
mod cmd_pow;
mod cmd_queries;
mod cmd_config;
mod cmd_fri;
mod friprov;
mod toy;
mod cmd_stark;
mod real;
mod cmd_real;
mod mutate;
mod cmd_tamper;
mod cmd_pubinput;
mod cmd_airvals;
mod cmd_linear;
mod cmd_parser;
mod merkle;
mod hashes;
mod terms;

fn main() {
    util::install_panic_hook();
    let args: Vec<String> = std::env::args().collect();
    if args.len() < 2 {
        eprintln!("usage: vh <command> ...");
        std::process::exit(2);
    }
    let rest = &args[2..];
    match args[1].as_str() {
        "domains" => cmd_domains::run(rest),
        "transcript" => cmd_transcript::run(rest),
        "vector" => cmd_vector::run(rest),
        "table" => cmd_table::run(rest),
        "pow" => cmd_pow::run(rest),
        "queries" => cmd_queries::run(rest),
        "config" => cmd_config::run(rest),
        "fri" => cmd_fri::run(rest),
        "parser-streams" => cmd_parser::run_streams(rest),
        "parser-files" => cmd_parser::run_files(rest),
        "linear" => cmd_linear::run(rest),
        "ie-order" => cmd_linear::run_ie(rest),
        "airvals" => cmd_airvals::run(rest),
        "pi-seed" => cmd_pubinput::run_seed(rest),
        "pi-validate" => cmd_pubinput::run_validate(rest),
        "tamper" => cmd_tamper::run_tamper(rest),
        "malformed" => cmd_tamper::run_malformed(rest),
        "real-matrix" => cmd_real::run_matrix(rest),
        "stark-replay" => cmd_stark::run_replay(rest),
        "fri-random" => cmd_fri::run_random(rest),
        "fri-highdeg" => cmd_fri::run_highdeg(rest),
        "build-info" => {
            println!("{}", build_info());
        }
        other => {
            eprintln!("unknown command {other}");
            std::process::exit(2);
        }
    }
}

pub fn build_info() -> String {
    let hash = if cfg!(feature = "keccak_160_lsb") { "keccak_160_lsb" } else if cfg!(feature = "keccak_248_lsb") { "keccak_248_lsb" }
        else if cfg!(feature = "blake2s_160_lsb") { "blake2s_160_lsb" } else { "blake2s_248_lsb" };
    let stone = if cfg!(feature = "stone5") { "stone5" } else { "stone6" };
    format!("{hash}-{stone}")
}
