//! C15: record get_diluted_product and get_public_memory_product_ratio on generated inputs.
use crate::util::*;
use serde_json::json;
use starknet_crypto::Felt;
use swiftness_air::diluted::get_diluted_product;
use swiftness_air::public_memory::PublicInput;
use swiftness_air::types::{AddrValue, ContinuousPageHeader, Page};

/// args: <trace.ndjson> <n_diluted> <max_bits> <n_pubmem> [full16]
pub fn run(args: &[String]) {
    let mut t = Out::file(&args[0]);
    let nd: u64 = args[1].parse().unwrap();
    let maxb: u64 = args[2].parse().unwrap();
    let np: u64 = args[3].parse().unwrap();
    let full16 = args.get(4).map(|s| s == "full16").unwrap_or(false);
    let mut rng = Rng::from_env(0xC15);
    let mut shapes: Vec<(u64, u64)> = Vec::new();
    for b in 1..=maxb { for s in 1..=4 { shapes.push((b, s)); } }
    // wide dilutions: the diluted values 2^(spacing*i) leave the machine word long before they leave the field
    let mut calls: Vec<(u64, u64)> = shapes.iter().cycle().take((nd as usize).max(shapes.len())).cloned().collect();
    for special in [(2u64, 40u64), (3, 32), (3, 40), (4, 21), (5, 16), (2, 64), (1, 64), (2, 70), (8, 16), (3, 100)] { calls.push(special); calls.push(special); }
    if full16 { calls.push((16, 4)); calls.push((16, 4)); }
    for (k, (b, s)) in calls.iter().enumerate() {
        let (z, alpha) = match k % 5 { 0 => (Felt::ZERO, rng.felt()), 1 => (rng.felt(), Felt::ZERO), 2 => (Felt::ONE, Felt::ZERO - Felt::ONE), _ => (rng.felt(), rng.felt()) };
        match guarded(|| get_diluted_product(Felt::from(*b), Felt::from(*s), z, alpha)) {
            Ok(out) => t.line(&json!({"ev":"diluted","n_bits":b,"spacing":s,"z":hex(&z),"alpha":hex(&alpha),"out":hex(&out)})),
            Err(p) => t.line(&json!({"ev":"diluted.panic","n_bits":b,"spacing":s,"where":p})),
        }
    }
    for k in 0..np {
        let n_cells = rng.below(24) as usize;
        let cells: Vec<AddrValue> = (0..n_cells).map(|i| AddrValue { address: Felt::from(1 + i as u64 + rng.below(3)), value: rng.felt() }).collect();
        let n_pages = rng.below(3) as usize;
        let headers: Vec<ContinuousPageHeader> = (0..n_pages).map(|_| ContinuousPageHeader { start_address: Felt::from(rng.below(1000)), size: Felt::from(1 + rng.below(20)), hash: rng.felt(), prod: rng.felt() }).collect();
        let pages_len: u64 = headers.iter().map(|h| to_u64(&h.size).unwrap()).sum();
        let extra = match k % 4 { 0 => 0, 1 => 1, _ => rng.below(200) };
        let size = n_cells as u64 + pages_len + extra;
        let (z, alpha) = (rng.felt(), rng.felt());
        let pi = PublicInput { log_n_steps: Felt::ZERO, range_check_min: Felt::ZERO, range_check_max: Felt::ZERO, layout: Felt::ZERO, dynamic_params: None, segments: vec![],
            padding_addr: Felt::from(1 + rng.below(50)), padding_value: rng.felt(), main_page: Page(cells), continuous_page_headers: headers };
        match guarded(|| pi.get_public_memory_product_ratio(z, alpha, Felt::from(size)).expect("product ratio")) {
            Ok(out) => t.line(&json!({"ev":"pubmem","cells": pi.main_page.iter().map(|c| vec![hex(&c.address), hex(&c.value)]).collect::<Vec<_>>(),
                "page_prods": hexs(pi.continuous_page_headers.iter().map(|h| &h.prod)), "pages_len": pages_len, "pad": vec![hex(&pi.padding_addr), hex(&pi.padding_value)],
                "z": hex(&z), "alpha": hex(&alpha), "size": hex(&Felt::from(size)), "out": hex(&out)})),
            Err(p) => t.line(&json!({"ev":"pubmem.panic","where":p})),
        }
    }
}
