//! C08: replay TLC-generated transcript histories on the real `Transcript`.
//! input: ndjson, one {"ops":[..],"counters":[..],"digest":term,"outs":[term..]} per line
//! output: ndjson, one {"i":n,"ok":bool,"why":..} per failing/ok case plus a summary line.
use crate::terms::{eval, Env, Partition};
use crate::util::*;
use serde_json::{json, Value};
use starknet_crypto::Felt;
use swiftness_transcript::transcript::Transcript;

pub fn run(args: &[String]) {
    let input = std::fs::read_to_string(&args[0]).unwrap();
    let mut out = Out::file(&args[1]);
    let mut rng = Rng::from_env(0xC08);
    let n_inst = 2;
    let mut cases = 0u64;
    let mut bad = 0u64;
    for inst in 0..n_inst {
        let env = Env::new(rng.next() ^ inst);
        let mut part = Partition::default();
        for (i, line) in input.lines().enumerate() {
            if line.trim().is_empty() { continue; }
            let case: Value = serde_json::from_str(line).unwrap();
            cases += 1;
            let r = guarded(|| replay(&case, &env, &mut part));
            let why = match r { Ok(None) => None, Ok(Some(w)) => Some(w), Err(p) => Some(format!("panic {p}")) };
            if let Some(w) = why {
                bad += 1;
                out.line(&json!({"i": i, "inst": inst, "ok": false, "why": w, "case": case,
                    "env": {"salt": env.salt}}));
            }
        }
    }
    out.line(&json!({"summary": true, "cases": cases, "bad": bad}));
}

fn replay(case: &Value, env: &Env, part: &mut Partition) -> Option<String> {
    let seed = env.atom("seed");
    let mut t = Transcript::new(seed);
    let ops = case["ops"].as_array().unwrap();
    let ctrs = case["counters"].as_array().unwrap();
    let outs = case["outs"].as_array().unwrap();
    let mut oi = 0usize;
    for (k, op) in ops.iter().enumerate() {
        let kind = op[0].as_str().unwrap();
        match kind {
            "felt" => t.read_felt_from_prover(&eval(&op[1], env)),
            "vec" => {
                let v: Vec<Felt> = op[1].as_array().unwrap().iter().map(|x| eval(x, env)).collect();
                t.read_felt_vector_from_prover(&v)
            }
            "u64" => t.read_uint64_from_prover(op[1].as_u64().unwrap()),
            "squeeze" => {
                let got = t.random_felt_to_prover();
                let term = &outs[oi];
                oi += 1;
                if got != eval(term, env) { return Some(format!("op {k}: squeeze output differs from {term}")); }
                if let Some(e) = part.observe(term, got) { return Some(format!("op {k}: {e}")); }
            }
            "squeezes" => {
                let n = op[1].as_u64().unwrap();
                let got = t.random_felts_to_prover(Felt::from(n));
                if got.len() as u64 != n { return Some(format!("op {k}: random_felts_to_prover({n}) returned {} values", got.len())); }
                for g in got {
                    let term = &outs[oi];
                    oi += 1;
                    if g != eval(term, env) { return Some(format!("op {k}: squeezes output differs from {term}")); }
                    if let Some(e) = part.observe(term, g) { return Some(format!("op {k}: {e}")); }
                }
            }
            other => panic!("op {other}"),
        }
        if *t.counter() != Felt::from(ctrs[k].as_u64().unwrap()) {
            return Some(format!("op {k}: counter {} expected {}", t.counter(), ctrs[k]));
        }
    }
    if oi != outs.len() { return Some("spec issued more challenges than the code".into()); }
    let d = eval(&case["digest"], env);
    if *t.digest() != d { return Some("final digest differs from the spec's term".into()); }
    if let Some(e) = part.observe(&case["digest"], d) { return Some(e); }
    None
}
