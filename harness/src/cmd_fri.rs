//! C06 / C07: replay TLC-generated FRI instances (structure: configuration, polynomial kind, query set,
//! corruption site) at the real field on fri_commit + fri_verify; record hooked traces.
use crate::cmd_table::annotate_all;
use crate::friprov;
use crate::util::*;
use serde_json::{json, Value};
use starknet_crypto::Felt;
use swiftness_fri::fri::{fri_commit, fri_verify};
use swiftness_transcript::{transcript::Transcript, verif};

fn u64s(v: &Value) -> Vec<u64> { v.as_array().unwrap().iter().map(|x| x.as_u64().unwrap()).collect() }

/// args: <cases.ndjson> <out.ndjson> [trace.ndjson [every]]
pub fn run(args: &[String]) {
    let input = std::fs::read_to_string(&args[0]).unwrap();
    let mut out = Out::file(&args[1]);
    let mut trace = args.get(2).map(|p| Out::file(p));
    let every: usize = args.get(3).map(|s| s.parse().unwrap()).unwrap_or(1);
    let mut rng = Rng::from_env(0xC06);
    let (mut cases, mut bad, mut skipped, mut panics) = (0u64, 0u64, 0u64, 0u64);
    for (i, line) in input.lines().enumerate() {
        if line.trim().is_empty() { continue; }
        let case: Value = serde_json::from_str(line).unwrap();
        let log_n = case["logn"].as_u64().unwrap();
        let steps = u64s(&case["steps"]);
        let log_last = case["loglast"].as_u64().unwrap();
        let queries = u64s(&case["queries"]);
        let kind = case["kind"].as_str().unwrap();
        let bound = 1usize << (steps.iter().sum::<u64>() + log_last);
        let coefs: Vec<Felt> = match kind {
            "generic" => (0..bound).map(|_| rng.felt()).collect(),
            "top" => (0..bound).map(|j| if j == bound - 1 { Felt::ONE } else { Felt::ZERO }).collect(),
            "zero" => vec![Felt::ZERO; bound],
            "high" => (0..bound + 1).map(|_| rng.felt()).collect(),
            k => panic!("kind {k}"),
        };
        let nvf = rng.below(log_n + 3);
        let seed = rng.felt();
        let mut ptr = Transcript::new(seed);
        let proof = friprov::commit(&mut ptr, &coefs, log_n, &steps, log_last, nvf);
        let mut witness = proof.witness(&queries);
        let mut decommitment = proof.decommitment(&queries);
        let qf: Vec<Felt> = queries.iter().map(|q| Felt::from(*q)).collect();
        let c = &case["corrupt"];
        let (ck, c1, c2) = (c[0].as_str().unwrap(), c[1].as_u64().unwrap() as usize, c[2].as_u64().unwrap() as usize);
        let mut applicable = true;
        match ck {
            "input" => decommitment.values[c1 - 1] += Felt::ONE,
            "leaf" => witness.layers[c1 - 1].leaves[c2 - 1] += Felt::ONE,
            "dropleaf" => { witness.layers[c1 - 1].leaves.pop(); }
            "extraleaf" => witness.layers[c1 - 1].leaves.push(Felt::from(7)),
            "auth" => { let a = &mut witness.layers[c1 - 1].table_witness.vector.authentications; if a.is_empty() { applicable = false; } else { let k = rng.below(a.len() as u64) as usize; a[k] += if i % 2 == 0 { Felt::ONE } else { Felt::TWO.pow(if i % 4 == 1 { 160u64 } else { 248u64 }) }; } }
            _ => {}
        }
        if !applicable { skipped += 1; continue; }
        cases += 1;
        let _ = verif::take();
        let mut vtr = Transcript::new(seed);
        let r = guarded(|| {
            let mut com = fri_commit(&mut vtr, proof.unsent.clone(), proof.config.clone());
            match ck {
                "commit" => com.inner_layers[c1 - 1].vector_commitment.commitment_hash += Felt::ONE,
                "evalpt" => com.eval_points[c1 - 1] += Felt::ONE,
                "lastcoef" => com.last_layer_coefficients[c1 - 1] += Felt::ONE,
                "lastzero" => for c in com.last_layer_coefficients.iter_mut() { *c = Felt::ZERO; },
                "lastlen" => { if c1 == 1 { com.last_layer_coefficients.push(Felt::ZERO); } else { com.last_layer_coefficients.pop(); } }
                _ => {}
            }
            fri_verify(&qf, com, decommitment, witness)
        });
        let events = verif::take();
        let expect = case["expect"].as_str().unwrap();
        // a changed evaluation point cannot be noticed on the zero polynomial (degenerate): follow the model's verdict
        let expect_ok = if ck == "evalpt" && kind == "zero" { case["model"] == "accept" } else { expect == "accept" };
        let (got_ok, detail, panicked) = match &r { Ok(Ok(())) => (true, "Ok".to_string(), None), Ok(Err(e)) => (false, format!("{e:?}"), None), Err(p) => (false, format!("panic {p}"), Some(p.clone())) };
        if got_ok != expect_ok {
            bad += 1;
            out.line(&json!({"i": i, "ok": false, "kind": "verdict", "why": format!("spec expects {} but real fri_verify returned {}", if expect_ok {"accept"} else {"reject"}, detail), "case": case, "nvf": nvf}));
        }
        if let Some(w) = panicked {
            panics += 1;
            out.line(&json!({"i": i, "ok": false, "kind": "panic", "where": w, "why": format!("fri code panicked at {w}"), "case": case}));
        }
        if let Some(t) = trace.as_mut() {
            if i % every == 0 && panicked_none(&r) {
                t.line(&json!({"ev":"reset","case":i,"corrupt":case["corrupt"],"kind":kind,
                               "ship": {"commits": hexs(proof.unsent.inner_layers.iter()), "last": hexs(proof.unsent.last_layer_coefficients.iter())}}));
                for e in annotate_all(&events) { t.line(&e); }
                t.line(&json!({"ev":"fri.result","ok":got_ok}));
            }
        }
    }
    out.line(&json!({"summary": true, "cases": cases, "bad": bad, "skipped": skipped, "panics": panics}));
}
fn panicked_none<T>(r: &Result<T, String>) -> bool { r.is_ok() }

/// C06 beyond the model's bounds: random valid configurations (2..15 layers, steps 1..4, domains up to 2^max_log),
/// random polynomials below the bound, random query sets; every instance must be accepted.
/// args: <out.ndjson> <trace.ndjson> <count> <max_log> <trace_every>
pub fn run_random(args: &[String]) {
    let mut out = Out::file(&args[0]);
    let mut trace = Out::file(&args[1]);
    let count: u64 = args[2].parse().unwrap();
    let max_log: u64 = args[3].parse().unwrap();
    let every: u64 = args[4].parse().unwrap();
    let mut rng = Rng::from_env(0xC06F);
    let (mut cases, mut bad) = (0u64, 0u64);
    let mut i = 0u64;
    while cases < count {
        i += 1;
        // the first two instances use the largest legal schedule: 15 layers (14 committed inner layers), steps of 1
        let maximal = i <= 2;
        let n_layers = if maximal { 15 } else if i % 7 == 0 { 2 + rng.below(14) } else { 2 + rng.below(4) } as usize;
        let steps: Vec<u64> = std::iter::once(0).chain((1..n_layers).map(|_| if maximal { 1 } else if n_layers > 6 { 1 + rng.below(2) } else { 1 + rng.below(4) })).collect();
        let log_last = if maximal { i - 1 } else { rng.below(4) };
        let log_cosets = if maximal { 1 } else { 1 + rng.below(4) };
        let log_n = steps.iter().sum::<u64>() + log_last + log_cosets;
        if log_n > max_log && !maximal { continue; }
        let bound = 1usize << (log_n - log_cosets);
        let deg = match rng.below(4) { 0 => bound, 1 => 1 + rng.below(bound as u64) as usize, _ => bound };
        let coefs: Vec<Felt> = (0..deg).map(|_| rng.felt()).collect();
        let nvf = match rng.below(3) { 0 => 0, 1 => rng.below(log_n + 3), _ => 100 };
        let n = 1u64 << log_n;
        let nq = 1 + rng.below(12);
        let mut queries: Vec<u64> = (0..nq).map(|_| rng.below(n)).collect();
        if rng.below(5) == 0 { let c = rng.below(n >> steps[1]) << steps[1]; queries.extend(c..c + (1 << steps[1])); }   // a whole coset
        queries.sort();
        queries.dedup();
        let seed = rng.felt();
        let mut ptr = Transcript::new(seed);
        let proof = friprov::commit(&mut ptr, &coefs, log_n, &steps, log_last, nvf);
        let witness = proof.witness(&queries);
        let decommitment = proof.decommitment(&queries);
        let qf: Vec<Felt> = queries.iter().map(|q| Felt::from(*q)).collect();
        let valid = proof.config.validate(Felt::from(log_cosets), Felt::from(nvf));
        cases += 1;
        let _ = verif::take();
        let mut vtr = Transcript::new(seed);
        let r = guarded(|| { let com = fri_commit(&mut vtr, proof.unsent.clone(), proof.config.clone()); fri_verify(&qf, com, decommitment, witness) });
        let events = verif::take();
        let desc = json!({"logn": log_n, "steps": steps, "loglast": log_last, "logcosets": log_cosets, "nvf": nvf, "deg": deg, "queries": queries});
        let ok = matches!(r, Ok(Ok(()))) && valid.is_ok() && vtr.digest() == ptr.digest();
        if !ok {
            bad += 1;
            out.line(&json!({"ok": false, "kind": "verdict", "why": format!("honest FRI instance not accepted: verify={:?} config.validate={:?} transcripts agree={}", r.as_ref().map(|x| x.as_ref().map_err(|e| format!("{e:?}"))), valid.as_ref().map_err(|e| format!("{e:?}")), vtr.digest() == ptr.digest()), "case": desc}));
        } else if cases % every == 0 {
            trace.line(&json!({"ev":"reset","case":cases,"desc":desc,
                               "ship": {"commits": hexs(proof.unsent.inner_layers.iter()), "last": hexs(proof.unsent.last_layer_coefficients.iter())}}));
            for e in annotate_all(&events) { trace.line(&e); }
            trace.line(&json!({"ev":"fri.result","ok":true}));
        }
        if cases <= 3 { out.line(&json!({"sample": desc})); }
    }
    out.line(&json!({"summary": true, "cases": cases, "bad": bad}));
}

/// C07 degree clause at the real field: functions of degree >= bound, honestly folded, with q random queries:
/// count acceptances per q.  args: <out.ndjson> <instances> <sets_per_q>
pub fn run_highdeg(args: &[String]) {
    let mut out = Out::file(&args[0]);
    let instances: u64 = args[1].parse().unwrap();
    let sets: u64 = args[2].parse().unwrap();
    let mut rng = Rng::from_env(0xC07D);
    let mut total = 0u64;
    let mut accepted = 0u64;
    for inst in 0..instances {
        let n_layers = 2 + rng.below(3) as usize;
        let steps: Vec<u64> = std::iter::once(0).chain((1..n_layers).map(|_| 1 + rng.below(3))).collect();
        let log_last = rng.below(3);
        let log_cosets = 1 + rng.below(2);
        let log_n = steps.iter().sum::<u64>() + log_last + log_cosets;
        if log_n > 10 { continue; }
        let bound = 1usize << (log_n - log_cosets);
        // degree = bound (the smallest violation), bound + few, or ~2*bound
        let deg = match inst % 3 { 0 => bound + 1, 1 => bound + 1 + rng.below(4) as usize, _ => 2 * bound };
        let coefs: Vec<Felt> = (0..deg).map(|_| rng.felt()).collect();
        let seed = rng.felt();
        let mut ptr = Transcript::new(seed);
        let proof = friprov::commit(&mut ptr, &coefs, log_n, &steps, log_last, rng.below(log_n + 2));
        for q in [1u64, 2, 3, 4, 8, 16, 24] {
            for _ in 0..sets {
                let mut queries: Vec<u64> = (0..q).map(|_| rng.below(1 << log_n)).collect();
                queries.sort();
                queries.dedup();
                let witness = proof.witness(&queries);
                let decommitment = proof.decommitment(&queries);
                let qf: Vec<Felt> = queries.iter().map(|x| Felt::from(*x)).collect();
                let mut vtr = Transcript::new(seed);
                let r = guarded(|| { let com = fri_commit(&mut vtr, proof.unsent.clone(), proof.config.clone()); fri_verify(&qf, com, decommitment, witness) });
                total += 1;
                if matches!(r, Ok(Ok(()))) {
                    accepted += 1;
                    out.line(&json!({"ok": false, "kind": "verdict", "why": "function of degree >= bound accepted", "case": {"logn": log_n, "steps": steps, "loglast": log_last, "deg": deg, "bound": bound, "queries": queries}}));
                }
            }
        }
    }
    out.line(&json!({"summary": true, "cases": total, "bad": accepted}));
}
