//! Small utilities shared by the harness commands: seeded RNG, field helpers, JSON helpers.
use serde_json::{json, Value};
use starknet_crypto::Felt;
use std::io::Write;

pub struct Rng(pub u64);
impl Rng {
    pub fn from_env(salt: u64) -> Rng {
        let s: u64 = std::env::var("VERIF_SEED").ok().and_then(|s| s.parse().ok()).unwrap_or(1);
        Rng(s.wrapping_mul(0x9E3779B97F4A7C15) ^ salt)
    }
    pub fn next(&mut self) -> u64 {
        self.0 = self.0.wrapping_add(0x9E3779B97F4A7C15);
        let mut z = self.0;
        z = (z ^ (z >> 30)).wrapping_mul(0xBF58476D1CE4E5B9);
        z = (z ^ (z >> 27)).wrapping_mul(0x94D049BB133111EB);
        z ^ (z >> 31)
    }
    pub fn below(&mut self, n: u64) -> u64 {
        if n == 0 { 0 } else { self.next() % n }
    }
    pub fn felt(&mut self) -> Felt {
        let mut b = [0u8; 32];
        for i in 0..4 {
            b[i * 8..i * 8 + 8].copy_from_slice(&self.next().to_be_bytes());
        }
        b[0] &= 0x03;
        Felt::from_bytes_be(&b)
    }
    pub fn pick<'a, T>(&mut self, v: &'a [T]) -> &'a T {
        &v[self.below(v.len() as u64) as usize]
    }
}

pub fn hex(f: &Felt) -> String {
    format!("{:#x}", f)
}
pub fn hexs<'a>(fs: impl IntoIterator<Item = &'a Felt>) -> Vec<String> {
    fs.into_iter().map(hex).collect()
}
pub fn felt_of(v: &Value) -> Felt {
    match v {
        Value::String(s) => Felt::from_hex(s).unwrap_or_else(|_| Felt::from_dec_str(s).expect("felt")),
        Value::Number(n) => Felt::from(n.as_u64().expect("u64")),
        _ => panic!("not a felt: {v}"),
    }
}
pub fn felts_of(v: &Value) -> Vec<Felt> {
    v.as_array().expect("array").iter().map(felt_of).collect()
}
pub fn inv(x: Felt) -> Felt {
    x.inverse().expect("inverse of zero")
}
pub fn pow2(k: u64) -> Felt {
    Felt::TWO.pow(k)
}
/// 3^((p-1)/2^log): primitive 2^log-th root of unity (log <= 192)
pub fn root_of_unity(log: u64) -> Felt {
    let pm1 = Felt::ZERO - Felt::ONE;
    Felt::THREE.pow_felt(&pm1.floor_div(&pow2(log).try_into().unwrap()))
}
pub fn bitrev(i: u64, n: u64) -> u64 {
    if n == 0 { 0 } else { i.reverse_bits() >> (64 - n) }
}
pub fn horner(c: &[Felt], x: Felt) -> Felt {
    c.iter().rev().fold(Felt::ZERO, |a, k| a * x + k)
}
pub fn to_u64(f: &Felt) -> Option<u64> {
    let b = f.to_bytes_be();
    if b[..24].iter().any(|x| *x != 0) { return None; }
    Some(u64::from_be_bytes(b[24..].try_into().unwrap()))
}

/// ndjson writer
pub struct Out(pub Box<dyn Write>);
impl Out {
    pub fn file(path: &str) -> Out {
        Out(Box::new(std::io::BufWriter::new(std::fs::File::create(path).expect("create"))))
    }
    pub fn stdout() -> Out {
        Out(Box::new(std::io::BufWriter::new(std::io::stdout())))
    }
    pub fn line(&mut self, v: &Value) {
        writeln!(self.0, "{}", v).unwrap();
    }
    pub fn raw(&mut self, s: &str) {
        writeln!(self.0, "{}", s).unwrap();
    }
}

/// Run `f` catching panics; returns Err(location-or-message) on panic.
pub fn guarded<T>(f: impl FnOnce() -> T) -> Result<T, String> {
    LAST_PANIC.with(|p| *p.borrow_mut() = None);
    let was = IN_GUARD.with(|g| g.replace(true));
    let r = std::panic::catch_unwind(std::panic::AssertUnwindSafe(f));
    IN_GUARD.with(|g| g.set(was));
    match r {
        Ok(v) => Ok(v),
        Err(payload) => {
            let msg = if let Some(s) = payload.downcast_ref::<&str>() {
                s.to_string()
            } else if let Some(s) = payload.downcast_ref::<String>() {
                s.clone()
            } else {
                "panic".to_string()
            };
            let loc = LAST_PANIC.with(|p| p.borrow().clone()).unwrap_or_default();
            Err(format!("{loc}|{msg}"))
        }
    }
}
thread_local! {
    pub static LAST_PANIC: std::cell::RefCell<Option<String>> = const { std::cell::RefCell::new(None) };
    static IN_GUARD: std::cell::Cell<bool> = const { std::cell::Cell::new(false) };
}
pub fn install_panic_hook() {
    std::panic::set_hook(Box::new(|info| {
        let mut loc = info.location().map(|l| {
            let f = l.file();
            let f = f.strip_prefix("/repo/").unwrap_or(f);
            format!("{}:{}", f, l.line())
        }).unwrap_or_else(|| "?".into());
        if !(loc.starts_with("crates/") || loc.starts_with("proof_parser/") || loc.starts_with("cli/")) {
            // the panic was raised inside std / a dependency: name the innermost frame of the code under test
            let bt = std::backtrace::Backtrace::force_capture().to_string();
            let mut last_fn = String::new();
            for line in bt.lines() {
                let t = line.trim();
                if let Some(rest) = t.strip_prefix("at /repo/") {
                    let mut parts = rest.rsplitn(2, ':');
                    let _col = parts.next();
                    if let Some(fl) = parts.next() { loc = format!("{} in {} (via {})", fl, last_fn, loc.rsplit('/').next().unwrap_or("")); break; }
                } else if !t.starts_with("at ") {
                    // "12: path::to::function"
                    last_fn = t.splitn(2, ": ").nth(1).unwrap_or(t).to_string();
                }
            }
        }
        // a panic of the harness itself (outside `guarded`) must not die silently
        if !IN_GUARD.with(|g| g.get()) { eprintln!("harness panic at {loc}: {info}"); }
        LAST_PANIC.with(|p| *p.borrow_mut() = Some(loc));
    }));
}
pub fn jerr(e: impl std::fmt::Debug) -> Value {
    let s = format!("{e:?}");
    json!(s.chars().take(120).collect::<String>())
}

/// Run `f` over `jobs` on `threads` worker threads, preserving order of results.
pub fn par_map<J: Sync, R: Send>(jobs: &[J], threads: usize, f: impl Fn(usize, &J) -> R + Sync) -> Vec<R> {
    let n = jobs.len();
    let next = std::sync::atomic::AtomicUsize::new(0);
    let results: std::sync::Mutex<Vec<Option<R>>> = std::sync::Mutex::new((0..n).map(|_| None).collect());
    std::thread::scope(|s| {
        for _ in 0..threads.max(1).min(n.max(1)) {
            s.spawn(|| {
                install_thread_state();
                loop {
                    let i = next.fetch_add(1, std::sync::atomic::Ordering::SeqCst);
                    if i >= n { break; }
                    let r = f(i, &jobs[i]);
                    watch_done();
                    results.lock().unwrap()[i] = Some(r);
                }
            });
        }
    });
    results.into_inner().unwrap().into_iter().map(|x| x.expect("job result")).collect()
}
fn install_thread_state() {}
pub fn n_threads() -> usize {
    std::env::var("VERIF_THREADS").ok().and_then(|s| s.parse().ok()).unwrap_or(12)
}


// ------------------------------------------------------------------------------------------------
// Allocation meter (C17): per-thread live bytes, peak and largest single request of the code under test.
pub struct Meter;
thread_local! {
    static M_LIVE: std::cell::Cell<usize> = const { std::cell::Cell::new(0) };
    static M_PEAK: std::cell::Cell<usize> = const { std::cell::Cell::new(0) };
    static M_MAXREQ: std::cell::Cell<usize> = const { std::cell::Cell::new(0) };
}
#[inline]
fn m_add(n: usize) {
    let _ = M_LIVE.try_with(|l| { let v = l.get().saturating_add(n); l.set(v); let _ = M_PEAK.try_with(|p| if v > p.get() { p.set(v) }); });
    let _ = M_MAXREQ.try_with(|m| if n > m.get() { m.set(n) });
}
#[inline]
fn m_sub(n: usize) { let _ = M_LIVE.try_with(|l| l.set(l.get().saturating_sub(n))); }
unsafe impl std::alloc::GlobalAlloc for Meter {
    unsafe fn alloc(&self, l: std::alloc::Layout) -> *mut u8 { m_add(l.size()); std::alloc::System.alloc(l) }
    unsafe fn alloc_zeroed(&self, l: std::alloc::Layout) -> *mut u8 { m_add(l.size()); std::alloc::System.alloc_zeroed(l) }
    unsafe fn dealloc(&self, p: *mut u8, l: std::alloc::Layout) { m_sub(l.size()); std::alloc::System.dealloc(p, l) }
    unsafe fn realloc(&self, p: *mut u8, l: std::alloc::Layout, n: usize) -> *mut u8 { m_sub(l.size()); m_add(n); std::alloc::System.realloc(p, l, n) }
}
/// Run `f` and return (result, peak bytes above the starting level, largest single request) of this thread.
pub fn metered<T>(f: impl FnOnce() -> T) -> (T, u64, u64) {
    let base = M_LIVE.with(|l| l.get());
    M_PEAK.with(|p| p.set(base));
    M_MAXREQ.with(|m| m.set(0));
    let r = f();
    let peak = M_PEAK.with(|p| p.get()).saturating_sub(base);
    (r, peak as u64, M_MAXREQ.with(|m| m.get()) as u64)
}


// ------------------------------------------------------------------------------------------------
// Watchdog: a call into the code under test that does not return cannot be interrupted; it is reported and the
// process exits with status 3 (the check turns that into a finding for C17 and into a tool error elsewhere).
static WATCH: std::sync::Mutex<Vec<(std::thread::ThreadId, String, std::time::Instant)>> = std::sync::Mutex::new(Vec::new());
/// Mark the start of a case on this thread (replaces the previous one).
pub fn watch(label: String) {
    let id = std::thread::current().id();
    let mut w = WATCH.lock().unwrap();
    w.retain(|e| e.0 != id);
    w.push((id, label, std::time::Instant::now()));
}
pub fn watch_done() { let id = std::thread::current().id(); WATCH.lock().unwrap().retain(|e| e.0 != id); }
pub fn start_watchdog(limit_s: u64) {
    std::thread::spawn(move || loop {
        std::thread::sleep(std::time::Duration::from_millis(500));
        let late: Option<String> = WATCH.lock().unwrap().iter().find(|e| e.2.elapsed().as_secs() >= limit_s).map(|e| e.1.clone());
        if let Some(l) = late {
            eprintln!("WATCHDOG-TIMEOUT after {limit_s}s: {l}");
            std::process::exit(3);
        }
    });
}
