//! C16: linearity of the composition / DEEP evaluators in their coefficient vectors and non-vanishing unit responses.
use crate::cmd_pubinput::bases;
use crate::real;
use crate::util::*;
use serde_json::{json, Value};
use starknet_crypto::Felt;
use swiftness_air::layout::{GenericLayoutTrait, LayoutTrait};
use swiftness_air::domains::StarkDomains;
use swiftness_stark::types::StarkProof;
use swiftness_transcript::transcript::Transcript;

/// names of the builtins a dynamic-layout parameter set switches on
fn enabled_builtins(pi: &swiftness_air::public_memory::PublicInput) -> Option<Vec<&'static str>> {
    let d = pi.dynamic_params.as_ref()?;
    let t = [("pedersen", d.uses_pedersen_builtin), ("range_check", d.uses_range_check_builtin), ("ecdsa", d.uses_ecdsa_builtin), ("bitwise", d.uses_bitwise_builtin),
             ("ec_op", d.uses_ec_op_builtin), ("keccak", d.uses_keccak_builtin), ("poseidon", d.uses_poseidon_builtin), ("range_check96", d.uses_range_check96_builtin),
             ("add_mod", d.uses_add_mod_builtin), ("mul_mod", d.uses_mul_mod_builtin)];
    Some(t.iter().filter(|(_, u)| *u != 0).map(|(n, _)| *n).collect())
}
/// parameter sets of the dynamic layout other than the shipped one: one builtin off, everything off, everything on
fn dynamic_variants(proof: &StarkProof) -> Vec<(String, StarkProof)> {
    let mut out = Vec::new();
    let dp0 = match proof.public_input.dynamic_params.clone() { Some(d) => d, None => return out };
    let with = |f: &dyn Fn(&mut swiftness_air::dynamic::DynamicParams)| -> StarkProof {
        let mut p: StarkProof = serde_json::from_value(serde_json::to_value(proof).unwrap()).unwrap();
        let mut d = dp0.clone(); f(&mut d); p.public_input.dynamic_params = Some(d); p };
    out.push(("pedersen-off".to_string(), with(&|d| d.uses_pedersen_builtin = 0)));
    out.push(("range_check-off".to_string(), with(&|d| d.uses_range_check_builtin = 0)));
    out.push(("core-only".to_string(), with(&|d| { d.uses_pedersen_builtin = 0; d.uses_range_check_builtin = 0; })));
    out.push(("all-on".to_string(), with(&|d| {
        let r = dp0.pedersen_builtin_row_ratio.max(1);
        d.uses_ecdsa_builtin = 1; d.uses_bitwise_builtin = 1; d.uses_ec_op_builtin = 1; d.uses_keccak_builtin = 1; d.uses_poseidon_builtin = 1;
        d.uses_range_check96_builtin = 1; d.uses_add_mod_builtin = 1; d.uses_mul_mod_builtin = 1;
        if d.ecdsa_builtin_row_ratio == 0 { d.ecdsa_builtin_row_ratio = r; } if d.bitwise_row_ratio == 0 { d.bitwise_row_ratio = r; }
        if d.ec_op_builtin_row_ratio == 0 { d.ec_op_builtin_row_ratio = r; } if d.keccak_row_ratio == 0 { d.keccak_row_ratio = r; }
        if d.poseidon_row_ratio == 0 { d.poseidon_row_ratio = r; } if d.range_check96_builtin_row_ratio == 0 { d.range_check96_builtin_row_ratio = r; }
        if d.add_mod_row_ratio == 0 { d.add_mod_row_ratio = r; } if d.mul_mod_row_ratio == 0 { d.mul_mod_row_ratio = r; }
    })));
    out
}

fn one<L: LayoutTrait + GenericLayoutTrait>(layout: &str, proof: &StarkProof, points: u64, rng: &mut Rng, variant: &str) -> Vec<Value> {
    let mut out = Vec::new();
    let pi = &proof.public_input;
    let enabled = enabled_builtins(pi);
    let d = StarkDomains::new(proof.config.log_trace_domain_size, proof.config.log_n_cosets);
    let n1 = L::get_num_columns_first(pi).unwrap();
    let n2 = L::get_num_columns_second(pi).unwrap();
    for k in 0..points {
        // interaction elements as the verifier derives them, from a fresh random transcript
        let mut tr = Transcript::new(rng.felt());
        let com = L::traces_commit(&mut tr, &proof.unsent_commitment.traces, proof.config.traces.clone());
        let ie = com.interaction_elements;
        let mask: Vec<Felt> = (0..L::MASK_SIZE).map(|_| rng.felt()).collect();
        let point = rng.felt();
        let n = L::N_CONSTRAINTS;
        let eval_c = |c: &[Felt]| guarded(|| L::eval_composition_polynomial(&ie, pi, &mask, c, &point, &d.trace_domain_size, &d.trace_generator).map_err(|e| format!("{e:?}")));
        let mut units = Vec::with_capacity(n);
        let mut fail = None;
        for i in 0..n {
            let mut c = vec![Felt::ZERO; n];
            c[i] = Felt::ONE;
            match eval_c(&c) { Ok(Ok(v)) => units.push(v), Ok(Err(e)) => { fail = Some(e); break; } Err(p) => { fail = Some(format!("panic {p}")); break; } }
        }
        // a synthetic parameter set the evaluator cannot work with (e.g. a division that does not come out) is not a finding
        if let Some(e) = fail { if variant == "shipped" { out.push(json!({"ev":"linear.fail","layout":layout,"which":"composition","why":e})); } else { out.push(json!({"ev":"linear.skip","layout":layout,"variant":variant,"why":e})); } continue; }
        let mut rand = Vec::new();
        for r in 0..3 {
            let c: Vec<Felt> = if r == 2 { let a = rng.felt(); (0..n).map(|i| a.pow(i as u64)).collect() } else { (0..n).map(|_| rng.felt()).collect() };
            if let Ok(Ok(v)) = eval_c(&c) { rand.push(json!({"c": hexs(c.iter()), "out": hex(&v)})); }
        }
        let zero = eval_c(&vec![Felt::ZERO; n]).ok().and_then(|x| x.ok()).map(|v| hex(&v));
        out.push(json!({"ev":"linear","layout":layout,"variant":variant,"enabled":enabled,"which":"composition","point":k,"n":n,"units":hexs(units.iter()),"rand":rand,"zero":zero}));
        if variant != "shipped" { continue; }      // the DEEP evaluator does not depend on the builtin switches
        // DEEP / OODS evaluator
        let m = L::MASK_SIZE + L::CONSTRAINT_DEGREE;
        let cols: Vec<Felt> = (0..n1 + n2 + L::CONSTRAINT_DEGREE).map(|_| rng.felt()).collect();
        let oods: Vec<Felt> = (0..m).map(|_| rng.felt()).collect();
        let (x, z) = (rng.felt(), rng.felt());
        let eval_d = |c: &[Felt]| guarded(|| L::eval_oods_polynomial(pi, &cols, &oods, c, &x, &z, &d.trace_generator).map_err(|e| format!("{e:?}")));
        let mut units = Vec::with_capacity(m);
        let mut fail = None;
        for i in 0..m {
            let mut c = vec![Felt::ZERO; m];
            c[i] = Felt::ONE;
            match eval_d(&c) { Ok(Ok(v)) => units.push(v), Ok(Err(e)) => { fail = Some(e); break; } Err(p) => { fail = Some(format!("panic {p}")); break; } }
        }
        if let Some(e) = fail { out.push(json!({"ev":"linear.fail","layout":layout,"which":"deep","why":e})); continue; }
        let mut rand = Vec::new();
        for r in 0..3 {
            let c: Vec<Felt> = if r == 2 { let a = rng.felt(); (0..m).map(|i| a.pow(i as u64)).collect() } else { (0..m).map(|_| rng.felt()).collect() };
            if let Ok(Ok(v)) = eval_d(&c) { rand.push(json!({"c": hexs(c.iter()), "out": hex(&v)})); }
        }
        let zero = eval_d(&vec![Felt::ZERO; m]).ok().and_then(|x| x.ok()).map(|v| hex(&v));
        out.push(json!({"ev":"linear","layout":layout,"variant":variant,"which":"deep","point":k,"n":m,"units":hexs(units.iter()),"rand":rand,"zero":zero}));
    }
    out
}

/// args: <trace.ndjson> <points_per_layout>
pub fn run(args: &[String]) {
    let mut t = Out::file(&args[0]);
    let points: u64 = args[1].parse().unwrap();
    let mut bs: Vec<(String, StarkProof, String)> = Vec::new();
    for (layout, proof) in bases() {
        if layout == "dynamic" { for (v, p) in dynamic_variants(&proof) { bs.push((layout.clone(), p, v)); } }
        bs.push((layout, proof, "shipped".to_string()));
    }
    let seeds: Vec<u64> = { let mut r = Rng::from_env(0xC16); bs.iter().map(|_| r.next()).collect() };
    let jobs: Vec<usize> = (0..bs.len()).collect();
    let res = par_map(&jobs, n_threads(), |_, i| {
        let (layout, proof, variant) = &bs[*i];
        let mut rng = Rng(seeds[*i]);
        real::dispatch!(layout.as_str(), one, layout, proof, points, &mut rng, variant)
    });
    for evs in res { for e in evs { t.line(&json!({"ev":"reset"})); t.line(&e); } }
}

// ------------------------------------------------------------------------------------------------
// C08: the interaction elements each layout draws, by field name, with the hooked transcript events
fn ie_one<L: LayoutTrait + GenericLayoutTrait>(layout: &str, proof: &StarkProof, seed: Felt) -> Vec<Value>
where L::InteractionElements: serde::Serialize {
    use swiftness_transcript::verif;
    let _ = verif::take();
    let mut tr = Transcript::new(seed);
    let com = L::traces_commit(&mut tr, &proof.unsent_commitment.traces, proof.config.traces.clone());
    let events = verif::take();
    let mut out = vec![json!({"ev":"reset","layout":layout})];
    // events: absorb(original), squeeze x n, absorb(interaction): keep up to the last squeeze
    let ann = crate::cmd_table::annotate_all(&events);
    let last_sq = ann.iter().rposition(|e| e["ev"] == "squeeze").unwrap_or(0);
    for e in &ann[..=last_sq] { out.push(e.clone()); }
    out.push(json!({"ev":"ie","layout":layout,"elements": serde_json::to_value(&com.interaction_elements).unwrap()}));
    out
}
/// args: <trace.ndjson> <rounds>
pub fn run_ie(args: &[String]) {
    let mut t = Out::file(&args[0]);
    let rounds: u64 = args[1].parse().unwrap();
    let mut rng = Rng::from_env(0xC08E);
    for (layout, proof) in bases() {
        for _ in 0..rounds {
            let seed = rng.felt();
            for e in real::dispatch!(layout.as_str(), ie_one, &layout, &proof, seed) { t.line(&e); }
        }
    }
}
