//! Evaluator for the symbolic terms of spec/Terms.tla (JSON form produced by TLC's ToJson).
use crate::hashes;
use serde_json::Value;
use starknet_crypto::{pedersen_hash, poseidon_hash, poseidon_hash_many, Felt};
use std::collections::HashMap;

/// Instantiation of atoms: every atom name gets a pseudo-random field element derived from
/// (salt, name); explicit bindings override.
pub struct Env {
    pub salt: u64,
    pub bound: HashMap<String, Felt>,
    memo: std::cell::RefCell<HashMap<String, Felt>>,
}
impl Env {
    pub fn new(salt: u64) -> Env { Env { salt, bound: HashMap::new(), memo: Default::default() } }
    pub fn atom(&self, name: &str) -> Felt {
        if let Some(v) = self.bound.get(name) { return *v; }
        let mut h: u64 = 0xcbf29ce484222325 ^ self.salt;
        for b in name.bytes() { h ^= b as u64; h = h.wrapping_mul(0x100000001b3); }
        crate::util::Rng(h).felt()
    }
}

pub fn eval(t: &Value, env: &Env) -> Felt {
    // memoise composite terms (tree roots share most of their subterms with the witness)
    let key = if t.as_array().map(|a| a.len() > 2 || a.get(1).map(|x| x.is_array()).unwrap_or(false)).unwrap_or(false) { Some(t.to_string()) } else { None };
    if let Some(k) = &key { if let Some(v) = env.memo.borrow().get(k) { return *v; } }
    let v = eval_inner(t, env);
    if let Some(k) = key { env.memo.borrow_mut().insert(k, v); }
    v
}
fn eval_inner(t: &Value, env: &Env) -> Felt {
    let a = t.as_array().unwrap_or_else(|| panic!("term is not a tuple: {t}"));
    let tag = a[0].as_str().expect("tag");
    match tag {
        "atom" => env.atom(&a[1].to_string()),
        "seed" => env.atom("seed"),
        "nat" => Felt::from(a[1].as_u64().unwrap()),
        "felt" => Felt::from_hex(a[1].as_str().unwrap()).unwrap(),
        "plus1" => eval(&a[1], env) + Felt::ONE,
        "p2" => poseidon_hash(eval(&a[1], env), eval(&a[2], env)),
        "pmany" => poseidon_hash_many(&evals(&a[1], env)),
        "pedersen" => pedersen_hash(&eval(&a[1], env), &eval(&a[2], env)),
        "masked" => hashes::masked2(&eval(&a[1], env), &eval(&a[2], env)),
        "maskedmany" => hashes::masked_many(&evals(&a[1], env)),
        "mont" => eval(&a[1], env) * hashes::montgomery_r(),
        "hibits" => eval(&a[1], env) + Felt::TWO.pow(a[2].as_u64().unwrap()),
        other => panic!("unknown term tag {other}"),
    }
}
pub fn evals(t: &Value, env: &Env) -> Vec<Felt> {
    t.as_array().expect("seq").iter().map(|x| eval(x, env)).collect()
}

/// Equality-partition check: equal terms <=> equal values, over everything observed.
#[derive(Default)]
pub struct Partition {
    by_term: HashMap<String, Felt>,
    by_val: HashMap<Felt, String>,
}
impl Partition {
    /// Returns an error description if (term, value) contradicts an earlier observation.
    pub fn observe(&mut self, term: &Value, val: Felt) -> Option<String> {
        let k = term.to_string();
        if let Some(v) = self.by_term.get(&k) {
            if *v != val {
                return Some(format!("same term, different values: {k}"));
            }
        }
        if let Some(t) = self.by_val.get(&val) {
            if *t != k {
                return Some(format!("different terms, same value: {k} vs {t}"));
            }
        }
        self.by_term.insert(k.clone(), val);
        self.by_val.insert(val, k);
        None
    }
}
