//! C19: the proof-file parser and the CLI conversion hand the verifier exactly what the file says.
//! `ref_convert` is an independent reading of a proof file written from spec/ProofFile.tla and the property
//! statement; the real path is swiftness_proof_parser::parse + cli/src/transform.rs.
use crate::real;
use crate::util::*;
use serde_json::{json, Value};
use starknet_crypto::Felt;
use swiftness_air::{dynamic::DynamicParams, public_memory::PublicInput, trace, types::{AddrValue, Page, SegmentInfo}};
use swiftness_commitment::{table, vector};
use swiftness_fri::{config::Config as FriConfig, types as ft};
use swiftness_stark::{config::StarkConfig, types::*};

fn felt_hex_strict(s: &str) -> Result<Felt, String> {
    let t = s.trim();
    let t = t.strip_prefix("0x").unwrap_or(t);
    if t.is_empty() || !t.chars().all(|c| c.is_ascii_hexdigit()) { return Err(format!("bad hex {s:?}")); }
    if t.trim_start_matches('0').len() > 63 { return Err(format!("value does not fit the field: {s}")); }
    Felt::from_hex(&format!("0x{t}")).map_err(|e| format!("{e:?}"))
}
fn u64_hex_strict(s: &str) -> Result<u64, String> {
    let t = s.trim();
    let t = t.strip_prefix("0x").unwrap_or(t);
    if t.is_empty() || !t.chars().all(|c| c.is_ascii_hexdigit()) { return Err(format!("bad hex {s:?}")); }
    u64::from_str_radix(t.trim_start_matches('0').max("0"), 16).map_err(|_| format!("does not fit 64 bits: {s}"))
}
fn log2_exact(x: u64) -> Option<u64> { if x != 0 && x & (x - 1) == 0 { Some(x.trailing_zeros() as u64) } else { None } }

const SEGMENT_ORDER: [&str; 13] = ["program", "execution", "output", "pedersen", "range_check", "ecdsa", "bitwise", "ec_op", "keccak", "poseidon", "range_check96", "add_mod", "mul_mod"];

/// One annotation line: (path after "/cpu air/", kind, raw value text)
fn lex_line(l: &str) -> Option<(String, String, String)> {
    let rest = l.strip_prefix("P->V[")?;
    let rest = &rest[rest.find("]: /cpu air/")? + "]: /cpu air/".len()..];
    let open = rest.rfind('(')?;
    if !rest.ends_with(')') { return None; }
    let val = rest[open + 1..rest.len() - 1].to_string();
    let head = &rest[..open];
    // kind = the words right before '('
    for kind in ["Field Elements", "Field Element", "Hash", "Data", "Number"] {
        if head.ends_with(kind) {
            let path_part = &head[..head.len() - kind.len()];
            // path = up to the first ": "
            let path = path_part.split(": ").next().unwrap_or("").to_string();
            return Some((path, kind.to_string(), val));
        }
    }
    None
}

pub fn ref_convert(file: &Value) -> Result<StarkProof, String> {
    let pp = &file["proof_parameters"];
    let pi = &file["public_input"];
    let layout = pi["layout"].as_str().ok_or("layout")?;
    let dynp = pi.get("dynamic_params").filter(|v| !v.is_null());
    let geti = |v: &Value, what: &str| -> Result<u64, String> { v.as_u64().ok_or(format!("{what}: not an unsigned integer")) };
    let (cpu_step, n1, n2): (u64, u64, u64) = match layout {
        "recursive" => (1, 7, 3), "starknet" => (1, 9, 1), "small" => (1, 23, 2), "recursive_with_poseidon" => (1, 6, 2),
        "starknet_with_keccak" => (1, 12, 3), "dex" => (1, 21, 1),
        "dynamic" => { let d = dynp.ok_or("dynamic layout without dynamic_params")?; (geti(&d["cpu_component_step"], "cpu_component_step")?, geti(&d["num_columns_first"], "num_columns_first")?, geti(&d["num_columns_second"], "num_columns_second")?) }
        o => return Err(format!("unsupported layout {o}")),
    };
    let n_steps = geti(&pi["n_steps"], "n_steps")?;
    let log_n_steps = log2_exact(n_steps).ok_or("n_steps is not a power of two")?;
    let rows = n_steps.checked_mul(16).and_then(|x| x.checked_mul(cpu_step)).ok_or("trace length overflow")?;
    if rows > u32::MAX as u64 { return Err("trace length does not fit".into()); }
    let log_trace = log2_exact(rows).ok_or("trace length is not a power of two")?;
    let log_cosets = geti(&pp["stark"]["log_n_cosets"], "log_n_cosets")?;
    let log_eval = log_trace + log_cosets;
    let nvf = pp.get("n_verifier_friendly_commitment_layers").map(|v| geti(v, "nvf")).transpose()?.unwrap_or(0);
    let fri = &pp["stark"]["fri"];
    let steps: Vec<u64> = fri["fri_step_list"].as_array().ok_or("fri_step_list")?.iter().map(|x| geti(x, "fri step")).collect::<Result<_, _>>()?;
    if steps.is_empty() { return Err("empty fri_step_list".into()); }
    let log_last = log2_exact(geti(&fri["last_layer_degree_bound"], "last_layer_degree_bound")?).ok_or("last layer degree bound is not a power of two")?;
    let pow_bits = geti(&fri["proof_of_work_bits"], "proof_of_work_bits")?;
    if pow_bits > 255 { return Err("proof_of_work_bits above 255".into()); }
    let tc = |cols: u64, h: u64| table::config::Config { n_columns: cols.into(), vector: vector::config::Config { height: h.into(), n_verifier_friendly_commitment_layers: nvf.into() } };
    let mut inner = Vec::new();
    let mut h = log_eval.checked_sub(steps[0]).ok_or("fri step larger than the layer")?;
    for s in &steps[1..] {
        if *s >= 32 { return Err("fri step too large".into()); }
        h = h.checked_sub(*s).ok_or("fri step larger than the layer")?;
        inner.push(tc(1u64 << s, h));
    }
    let config = StarkConfig {
        traces: trace::config::Config { original: tc(n1, log_eval), interaction: tc(n2, log_eval) },
        composition: tc(2, log_eval),
        fri: FriConfig { log_input_size: log_eval.into(), n_layers: (steps.len() as u64).into(), inner_layers: inner, fri_step_sizes: steps.iter().map(|s| Felt::from(*s)).collect(), log_last_layer_degree_bound: log_last.into() },
        proof_of_work: swiftness_pow::config::Config { n_bits: pow_bits as u8 },
        log_trace_domain_size: log_trace.into(), n_queries: geti(&fri["n_queries"], "n_queries")?.into(), log_n_cosets: log_cosets.into(), n_verifier_friendly_commitment_layers: nvf.into(),
    };
    // ---- public input
    let mem = pi["public_memory"].as_array().ok_or("public_memory")?;
    let mut main_page = Vec::new();
    // continuous pages: page id -> (start address, values); header = (start, size, Pedersen chain of the values and their count,
    // product of (z - (address + alpha * value))) with z, alpha the first two interaction elements of the stream
    let mut pages: std::collections::BTreeMap<u64, (u64, Vec<Felt>)> = Default::default();
    for c in mem {
        let v = felt_hex_strict(c["value"].as_str().ok_or("memory value")?)?;
        let a = geti(&c["address"], "address")?;
        let pg = geti(&c["page"], "page")?;
        if pg == 0 { main_page.push(AddrValue { address: a.into(), value: v }); } else {
            let e = pages.entry(pg).or_insert((a, Vec::new()));
            if a != e.0 + e.1.len() as u64 { return Err("non-consecutive addresses in a continuous page".into()); }
            e.1.push(v);
        }
    }
    let mut headers = Vec::new();
    if !pages.is_empty() {
        let mut ie = Vec::new();
        for l in file["annotations"].as_array().ok_or("annotations")? {
            let l = l.as_str().unwrap_or("");
            if l.starts_with("V->P: /cpu air/STARK/Interaction: Interaction element #") { if let Some(i) = l.rfind("Field Element(") { ie.push(felt_hex_strict(&l[i + 14..l.len() - 1])?); } }
        }
        if ie.len() < 2 { return Err("no interaction elements".into()); }
        for (k, (id, (start, vals))) in pages.iter().enumerate() {
            if *id != k as u64 + 1 { return Err("page ids are not consecutive".into()); }
            let h = vals.iter().fold(Felt::ZERO, |a, v| starknet_crypto::pedersen_hash(&a, v));
            let hash = starknet_crypto::pedersen_hash(&h, &Felt::from(vals.len() as u64));
            let prod = vals.iter().enumerate().fold(Felt::ONE, |p, (i, v)| p * (ie[0] - (Felt::from(start + i as u64) + ie[1] * v)));
            headers.push(swiftness_air::types::ContinuousPageHeader { start_address: (*start).into(), size: (vals.len() as u64).into(), hash, prod });
        }
    }
    let first = mem.first().ok_or("empty public memory")?;
    let segs = pi["memory_segments"].as_object().ok_or("memory_segments")?;
    for k in segs.keys() { if !SEGMENT_ORDER.contains(&k.as_str()) { return Err(format!("unknown segment {k}")); } }
    let mut segments = Vec::new();
    for name in SEGMENT_ORDER { if let Some(s) = segs.get(name) { segments.push(SegmentInfo { begin_addr: geti(&s["begin_addr"], "begin_addr")?.into(), stop_ptr: geti(&s["stop_ptr"], "stop_ptr")?.into() }); } }
    let dynamic_params = match dynp {
        Some(d) if !d.as_object().map(|o| o.is_empty()).unwrap_or(true) => {
            let o = d.as_object().unwrap();
            let mut keys: Vec<&String> = o.keys().collect();
            keys.sort();
            let vals: Vec<usize> = keys.iter().map(|k| geti(&o[*k], "dynamic param").map(|x| x as usize)).collect::<Result<_, _>>()?;
            if vals.len() != 340 { return Err("wrong number of dynamic parameters".into()); }
            Some(DynamicParams::from(vals))
        }
        _ => None,
    };
    let public_input = PublicInput {
        log_n_steps: log_n_steps.into(), range_check_min: geti(&pi["rc_min"], "rc_min")?.into(), range_check_max: geti(&pi["rc_max"], "rc_max")?.into(),
        layout: Felt::from_bytes_be_slice(layout.as_bytes()), dynamic_params, segments,
        padding_addr: geti(&first["address"], "address")?.into(), padding_value: felt_hex_strict(first["value"].as_str().ok_or("memory value")?)?,
        main_page: Page(main_page), continuous_page_headers: headers,
    };
    // ---- annotation stream
    let n_inner = steps.len() - 1;
    let mut c_orig = None; let mut c_inter = None; let mut c_comp = None; let mut nonce = None;
    let (mut oods, mut fri_commits, mut last) = (Vec::new(), Vec::new(), Vec::new());
    let mut t_leaves = vec![Vec::new(), Vec::new(), Vec::new()];
    let mut t_auth = vec![Vec::new(), Vec::new(), Vec::new()];
    let mut f_leaves = vec![Vec::new(); n_inner];
    let mut f_auth = vec![Vec::new(); n_inner];
    for l in file["annotations"].as_array().ok_or("annotations")? {
        let l = l.as_str().ok_or("annotation line")?;
        let Some((path, kind, val)) = lex_line(l) else { continue };
        let one = || felt_hex_strict(&val);
        let many = || -> Result<Vec<Felt>, String> { val.split(',').map(felt_hex_strict).collect() };
        match (path.as_str(), kind.as_str()) {
            ("STARK/Original/Commit on Trace", "Hash") => { if c_orig.is_none() { c_orig = Some(one()?); } }
            ("STARK/Interaction/Commit on Trace", "Hash") => { if c_inter.is_none() { c_inter = Some(one()?); } }
            ("STARK/Out Of Domain Sampling/Commit on Trace", "Hash") => { if c_comp.is_none() { c_comp = Some(one()?); } }
            ("STARK/Out Of Domain Sampling/OODS values", "Field Elements") => oods.extend(many()?),
            ("STARK/FRI/Commitment/Last Layer", "Field Elements") => last.extend(many()?),
            ("STARK/FRI/Proof of Work", "Data") => { if nonce.is_none() { nonce = Some(u64_hex_strict(&val)?); } }
            (p, k) if p.starts_with("STARK/FRI/Commitment/Layer ") && k == "Hash" && p["STARK/FRI/Commitment/Layer ".len()..].chars().all(|c| c.is_ascii_digit()) => fri_commits.push(one()?),
            (p, k) if p.starts_with("STARK/FRI/Decommitment/Layer 0/Virtual Oracle/Trace ") => {
                let t: usize = match &p["STARK/FRI/Decommitment/Layer 0/Virtual Oracle/Trace ".len()..] { "0" => 0, "1" => 1, "2" => 2, _ => continue };
                match k { "Field Element" => t_leaves[t].push(one()?), "Data" | "Hash" => t_auth[t].push(one()?), _ => {} }
            }
            (p, k) if p.starts_with("STARK/FRI/Decommitment/Layer ") => {
                let Ok(layer) = p["STARK/FRI/Decommitment/Layer ".len()..].parse::<usize>() else { continue };
                if layer >= 1 && layer <= n_inner { match k { "Field Element" => f_leaves[layer - 1].push(one()?), "Hash" => f_auth[layer - 1].push(one()?), _ => {} } }
            }
            _ => {}
        }
    }
    let tw = |a: Vec<Felt>| table::types::Witness { vector: vector::types::Witness { authentications: a } };
    let mut ta = t_auth.into_iter();
    let mut tl = t_leaves.into_iter();
    let (l0, l1, l2) = (tl.next().unwrap(), tl.next().unwrap(), tl.next().unwrap());
    let (a0, a1, a2) = (ta.next().unwrap(), ta.next().unwrap(), ta.next().unwrap());
    Ok(StarkProof {
        config, public_input,
        unsent_commitment: StarkUnsentCommitment {
            traces: trace::UnsentCommitment { original: c_orig.ok_or("no original commitment")?, interaction: c_inter.ok_or("no interaction commitment")? },
            composition: c_comp.ok_or("no composition commitment")?, oods_values: oods,
            fri: ft::UnsentCommitment { inner_layers: fri_commits, last_layer_coefficients: last },
            proof_of_work: swiftness_pow::pow::UnsentCommitment { nonce: nonce.ok_or("no proof of work nonce")? },
        },
        witness: StarkWitness {
            traces_decommitment: trace::Decommitment { original: table::types::Decommitment { values: l0 }, interaction: table::types::Decommitment { values: l1 } },
            traces_witness: trace::Witness { original: tw(a0), interaction: tw(a1) },
            composition_decommitment: table::types::Decommitment { values: l2 }, composition_witness: tw(a2),
            fri_witness: ft::Witness { layers: f_leaves.into_iter().zip(f_auth).map(|(l, a)| ft::LayerWitness { leaves: l, table_witness: tw(a) }).collect() },
        },
    })
}

fn real_convert(text: &str) -> Result<StarkProof, String> { real::load(text) }

fn first_diff(a: &Value, b: &Value, path: String) -> Option<String> {
    match (a, b) {
        (Value::Object(x), Value::Object(y)) => {
            for (k, v) in x { match y.get(k) { Some(w) => if let Some(d) = first_diff(v, w, format!("{path}.{k}")) { return Some(d); }, None => return Some(format!("{path}.{k} missing")) } }
            for k in y.keys() { if !x.contains_key(k) { return Some(format!("{path}.{k} unexpected")); } }
            None
        }
        (Value::Array(x), Value::Array(y)) => {
            if x.len() != y.len() { return Some(format!("{path}: length {} vs {}", x.len(), y.len())); }
            for (i, (v, w)) in x.iter().zip(y).enumerate() { if let Some(d) = first_diff(v, w, format!("{path}[{i}]")) { return Some(d); } }
            None
        }
        _ => if a == b { None } else { Some(format!("{path}: {a} vs {b}")) },
    }
}

/// compare the real conversion with the reference on one file text; returns a violation description
fn compare(text: &str) -> Option<(String, String)> {
    let file: Value = match serde_json::from_str(text) { Ok(v) => v, Err(_) => return None };
    let want = ref_convert(&file);
    let got = real_convert(text);
    match (&want, &got) {
        (_, Err(e)) if e.starts_with("panic") => Some(("crash".into(), format!("conversion panicked: {}", &e[..e.len().min(200)]))),
        (Ok(w), Ok(g)) => first_diff(&serde_json::to_value(w).unwrap(), &serde_json::to_value(g).unwrap(), String::new()).map(|d| ("unfaithful".into(), format!("converted proof differs from the file at {d}"))),
        (Err(why), Ok(_)) => Some(("accepted-malformed".into(), format!("file is malformed / not representable ({why}) but a proof was produced"))),
        (Ok(_), Err(e)) => Some(("rejected-wellformed".into(), format!("well-formed file rejected: {}", &e[..e.len().min(200)]))),
        (Err(_), Err(_)) => None,
    }
}

fn render(tok: &Value, pos: &mut u64) -> String {
    let class = tok[0][0].as_str().unwrap();
    let k = tok[0][1].as_u64().unwrap();
    let kind = tok[1].as_str().unwrap();
    let vals: Vec<String> = tok[2].as_array().unwrap().iter().map(|v| format!("0x{:x}", v.as_u64().unwrap())).collect();
    let v = vals.join(", ");
    let a = *pos; *pos += 32;
    let pv = format!("P->V[{a}:{}]: /cpu air/", a + 32);
    match class {
        "ie" => format!("V->P: /cpu air/STARK/Interaction: Interaction element #{}: Field Element({v})", a % 7),
        "c_orig" => format!("{pv}STARK/Original/Commit on Trace: Commitment: {kind}({v})"),
        "c_inter" => format!("{pv}STARK/Interaction/Commit on Trace: Commitment: {kind}({v})"),
        "c_comp" => format!("{pv}STARK/Out Of Domain Sampling/Commit on Trace: Commitment: {kind}({v})"),
        "oods" => format!("{pv}STARK/Out Of Domain Sampling/OODS values: : {kind}({v})"),
        "fri_commit" => format!("{pv}STARK/FRI/Commitment/Layer 1: Commitment: {kind}({v})"),
        "last" => format!("{pv}STARK/FRI/Commitment/Last Layer: Coefficients: {kind}({v})"),
        "pow" => format!("{pv}STARK/FRI/Proof of Work: POW: {kind}({v})"),
        "t0" | "t1" | "t2" => { let t = &class[1..]; if kind == "Field Element" { format!("{pv}STARK/FRI/Decommitment/Layer 0/Virtual Oracle/Trace {t}: Row {a}, Column 0: {kind}({v})") } else { format!("{pv}STARK/FRI/Decommitment/Layer 0/Virtual Oracle/Trace {t}: For node {a}: {kind}({v})") } }
        "fri" => if kind == "Field Element" { format!("{pv}STARK/FRI/Decommitment/Layer {k}: Row {a}, Column 0: {kind}({v})") } else { format!("{pv}STARK/FRI/Decommitment/Layer {k}: For node {a}: {kind}({v})") },
        o => panic!("class {o}"),
    }
}

/// (1) TLC-generated streams on the real parser. args: streams <cases.ndjson> <out.ndjson>
pub fn run_streams(args: &[String]) {
    let input = std::fs::read_to_string(&args[0]).unwrap();
    let mut out = Out::file(&args[1]);
    let template: Value = serde_json::from_str(&std::fs::read_to_string("/repo/examples/proofs/recursive/cairo0_stone5_example_proof.json").unwrap()).unwrap();
    let (mut n, mut bad) = (0u64, 0u64);
    for line in input.lines() {
        if line.trim().is_empty() { continue; }
        let c: Value = serde_json::from_str(line).unwrap();
        let mut f = template.clone();
        let ninner = c["ninner"].as_u64().unwrap_or(1) as usize;
        f["proof_parameters"]["stark"]["fri"]["fri_step_list"] = if ninner == 1 { json!([0, 4]) } else { let mut v = vec![0u64]; v.extend(std::iter::repeat(1).take(ninner)); json!(v) };
        let mut pos = 0u64;
        let lines: Vec<String> = c["stream"].as_array().unwrap().iter().map(|t| render(t, &mut pos)).collect();
        f["annotations"] = json!(lines);
        let text = f.to_string();
        n += 1;
        let ie_edit = c["edit"][0] != "none" && { let i = c["edit"][1].as_u64().unwrap() as usize; [1usize, 3, 4].contains(&i) };
        let got = guarded(|| swiftness_proof_parser::parse(text.clone()));
        let exp = &c["expect"];
        let nums = |v: &Vec<num_bigint::BigUint>| -> Value { json!(v.iter().map(|x| x.to_u64_digits().first().copied().unwrap_or(0)).collect::<Vec<u64>>()) };
        let why = match got {
            Err(p) => Some(format!("parser panicked: {p}")),
            Ok(Err(e)) => if c["wellformed"].as_bool().unwrap() && !ie_edit { Some(format!("well-formed stream rejected: {e}")) } else { None },
            Ok(Ok(p)) => {
                if !c["wellformed"].as_bool().unwrap() { Some("stream without a commitment / nonce produced a proof".to_string()) } else {
                    let u = &p.unsent_commitment; let w = &p.witness;
                    let one = |x: &num_bigint::BigUint| nums(&vec![x.clone()]);
                    let checks: Vec<(&str, Value)> = vec![
                        ("c_orig", one(&u.traces.original)), ("c_inter", one(&u.traces.interaction)), ("c_comp", one(&u.composition)), ("oods", nums(&u.oods_values)),
                        ("fri_commits", nums(&u.fri.inner_layers)), ("last", nums(&u.fri.last_layer_coefficients)), ("nonce", one(&u.proof_of_work.nonce)),
                        ("t0_leaves", nums(&w.traces_decommitment.original.values)), ("t0_auth", nums(&w.traces_witness.original.vector.authentications)),
                        ("t1_leaves", nums(&w.traces_decommitment.interaction.values)), ("t1_auth", nums(&w.traces_witness.interaction.vector.authentications)),
                        ("t2_leaves", nums(&w.composition_decommitment.values)), ("t2_auth", nums(&w.composition_witness.vector.authentications)),
                        ("fri_leaves", json!(w.fri_witness.layers.iter().map(|l| nums(&l.leaves)).collect::<Vec<_>>())),
                        ("fri_auth", json!(w.fri_witness.layers.iter().map(|l| nums(&l.table_witness.vector.authentications)).collect::<Vec<_>>())),
                    ];
                    checks.iter().find(|(k, v)| exp[*k] != *v).map(|(k, v)| format!("field {k}: parser extracted {v}, the stream says {}", exp[*k]))
                }
            }
        };
        if let Some(w) = why { bad += 1; out.line(&json!({"ok": false, "kind": "stream", "why": w, "case": c})); }
    }
    out.line(&json!({"summary": true, "cases": n, "bad": bad}));
}

/// (2) shipped files and edits of them. args: files <out.ndjson> <edits_per_kind>
pub fn run_files(args: &[String]) {
    let mut out = Out::file(&args[0]);
    let per: u64 = args[1].parse().unwrap();
    let files = real::list_proofs();
    let mut jobs: Vec<(usize, String, u64)> = Vec::new();
    let kinds = ["none", "value:commitment", "value:oods", "value:leaf", "value:auth", "value:fri_leaf", "value:memory", "swap:leaves", "swap:auth", "remove:leaf", "remove:auth", "remove:commitment",
                 "remove:nonce", "dup:leaf", "dup:commitment", "segment:unknown", "segment:remove", "hex:memory", "hex:memory:+", "hex:memory:0x_", "hex:memory:0xg", "hex:memory:empty", "hex:memory:0x", "hex:annotation", "hex:annotation:0x0x", "hex:nonce:0x0x", "hex:in-list", "hex:in-list:0x0x", "pow_bits:255", "pow_bits:256", "pow_bits:300",
                 "nonce:0", "nonce:max64", "nonce:2^64", "steps:empty", "steps:huge", "steps:32+cosets40", "steps:31+cosets40", "n_steps:odd", "n_steps:2^31", "last_bound:100", "page:1", "page:top32", "page:wrap32", "page:first", "page:last-listed-first", "memory:rotate", "memory:swap01", "rc", "nvf", "dyn:value", "dyn:remove", "dyn:cpu_step=8", "dyn:cpu_step=3", "dyn:cpu_step=0", "dyn:cols_first+1", "dyn:cols_second+1", "dup:fri_commit", "steps:drop-last", "steps:append", "layout:unknown"];
    for (fi, _) in files.iter().enumerate() { for k in kinds { for r in 0..(if k == "none" { 1 } else { per }) { jobs.push((fi, k.to_string(), r)); } } }
    let res = par_map(&jobs, n_threads(), |_, (fi, kind, r)| {
        let f = &files[*fi];
        let mut rng = Rng(0xC19 ^ (*fi as u64) << 8 ^ *r ^ kind.len() as u64);
        let mut v: Value = serde_json::from_str(&f.text).unwrap();
        let ann: Vec<String> = v["annotations"].as_array().unwrap().iter().map(|x| x.as_str().unwrap().to_string()).collect();
        let find = |pat: &str| -> Vec<usize> { ann.iter().enumerate().filter(|(_, l)| l.contains(pat)).map(|(i, _)| i).collect() };
        let pick = |v: &Vec<usize>, rng: &mut Rng| -> Option<usize> { if v.is_empty() { None } else { Some(v[rng.below(v.len() as u64) as usize]) } };
        let leaves = find("Virtual Oracle/Trace 0: Row");
        let auths = find("Virtual Oracle/Trace 0: For node");
        let set_ann = |v: &mut Value, i: usize, s: String| { v["annotations"][i] = json!(s); };
        let bump = |l: &str| -> String { // change the last hex digit of the (first) value
            let i = l.rfind(')').unwrap(); let mut b = l.as_bytes().to_vec(); b[i - 1] = if b[i - 1] == b'1' { b'2' } else { b'1' }; String::from_utf8(b).unwrap() };
        let mut applicable = true;
        match kind.as_str() {
            "none" => {}
            "value:commitment" => { if let Some(i) = pick(&find("Commit on Trace: Commitment: Hash"), &mut rng) { set_ann(&mut v, i, bump(&ann[i])); } }
            "value:oods" => { if let Some(i) = pick(&find("OODS values: : Field Elements"), &mut rng) { set_ann(&mut v, i, bump(&ann[i])); } }
            "value:leaf" => { if let Some(i) = pick(&leaves, &mut rng) { set_ann(&mut v, i, bump(&ann[i])); } }
            "value:auth" => { if let Some(i) = pick(&auths, &mut rng) { set_ann(&mut v, i, bump(&ann[i])); } }
            "value:fri_leaf" => { if let Some(i) = pick(&find("FRI/Decommitment/Layer 1: Row"), &mut rng) { set_ann(&mut v, i, bump(&ann[i])); } }
            "value:memory" => { let n = v["public_input"]["public_memory"].as_array().unwrap().len(); let i = rng.below(n as u64) as usize; v["public_input"]["public_memory"][i]["value"] = json!("0x1234abcd"); }
            "swap:leaves" => { if leaves.len() >= 2 { let k = rng.below(leaves.len() as u64 - 1) as usize; v["annotations"].as_array_mut().unwrap().swap(leaves[k], leaves[k + 1]); } }
            "swap:auth" => { if auths.len() >= 2 { let k = rng.below(auths.len() as u64 - 1) as usize; v["annotations"].as_array_mut().unwrap().swap(auths[k], auths[k + 1]); } }
            "remove:leaf" => { if let Some(i) = pick(&leaves, &mut rng) { v["annotations"].as_array_mut().unwrap().remove(i); } }
            "remove:auth" => { if let Some(i) = pick(&auths, &mut rng) { v["annotations"].as_array_mut().unwrap().remove(i); } }
            "remove:commitment" => { if let Some(i) = pick(&find("Commit on Trace: Commitment: Hash"), &mut rng) { v["annotations"].as_array_mut().unwrap().remove(i); } }
            "remove:nonce" => { if let Some(i) = pick(&find("Proof of Work: POW: Data"), &mut rng) { v["annotations"].as_array_mut().unwrap().remove(i); } }
            "dup:leaf" => { if let Some(i) = pick(&leaves, &mut rng) { let l = ann[i].clone(); v["annotations"].as_array_mut().unwrap().insert(i, json!(l)); } }
            "dup:commitment" => { if let Some(i) = pick(&find("Commit on Trace: Commitment: Hash"), &mut rng) { let l = bump(&ann[i]); v["annotations"].as_array_mut().unwrap().insert(i + 1, json!(l)); } }
            "segment:unknown" => { v["public_input"]["memory_segments"]["foo_builtin"] = json!({"begin_addr": 5, "stop_ptr": 5}); }
            "segment:remove" => { v["public_input"]["memory_segments"].as_object_mut().unwrap().remove("output"); }
            "hex:memory" => { v["public_input"]["public_memory"][1]["value"] = json!("0xzz12"); }
            k if k.starts_with("hex:memory:") => { let n = v["public_input"]["public_memory"].as_array().unwrap().len(); let i = rng.below(n as u64) as usize;
                v["public_input"]["public_memory"][i]["value"] = json!(match k { "hex:memory:+" => "+90", "hex:memory:0x_" => "0x_90", "hex:memory:0xg" => "0xg1", "hex:memory:space" => "0x90 ", "hex:memory:empty" => "", _ => "0x" }); }
            // a repeated prefix is not a hex number
            "hex:annotation:0x0x" => { if let Some(i) = pick(&leaves, &mut rng) { let l = ann[i].replace("Field Element(0x", "Field Element(0x0x"); set_ann(&mut v, i, l); } }
            "hex:nonce:0x0x" => { if let Some(i) = pick(&find("Proof of Work: POW: Data"), &mut rng) { let l = ann[i].replace("Data(0x", "Data(0x0x"); set_ann(&mut v, i, l); } }
            "hex:in-list:0x0x" => { if let Some(i) = pick(&find("OODS values: : Field Elements"), &mut rng) { let l = ann[i].replacen(", 0x", ", 0x0x", 1); set_ann(&mut v, i, l); } }
            "hex:annotation" => { if let Some(i) = pick(&leaves, &mut rng) { let l = ann[i].replace("Field Element(0x", "Field Element(0xzz"); set_ann(&mut v, i, l); } }
            "hex:in-list" => { if let Some(i) = pick(&find("OODS values: : Field Elements"), &mut rng) { let l = ann[i].replacen(", 0x", ", 0xq", 1); set_ann(&mut v, i, l); } }
            "pow_bits:255" => v["proof_parameters"]["stark"]["fri"]["proof_of_work_bits"] = json!(255),
            "pow_bits:256" => v["proof_parameters"]["stark"]["fri"]["proof_of_work_bits"] = json!(256),
            "pow_bits:300" => v["proof_parameters"]["stark"]["fri"]["proof_of_work_bits"] = json!(300),
            k if k.starts_with("nonce:") => { if let Some(i) = pick(&find("Proof of Work: POW: Data"), &mut rng) {
                let val = match k { "nonce:0" => "0x0", "nonce:max64" => "0xffffffffffffffff", _ => "0x10000000000000000" };
                let l = &ann[i]; let j = l.rfind("Data(").unwrap(); set_ann(&mut v, i, format!("{}Data({})", &l[..j], val)); } }
            "steps:empty" => v["proof_parameters"]["stark"]["fri"]["fri_step_list"] = json!([]),
            // a step whose column count 2^step no longer fits 32 bits, inside a domain large enough for the layer sizes to stay positive
            "steps:32+cosets40" => { v["proof_parameters"]["stark"]["log_n_cosets"] = json!(40); v["proof_parameters"]["stark"]["fri"]["fri_step_list"][1] = json!(32); }
            "steps:31+cosets40" => { v["proof_parameters"]["stark"]["log_n_cosets"] = json!(40); v["proof_parameters"]["stark"]["fri"]["fri_step_list"][1] = json!(31); }
            "steps:huge" => v["proof_parameters"]["stark"]["fri"]["fri_step_list"] = json!([0, 40]),
            "n_steps:odd" => v["public_input"]["n_steps"] = json!(12345),
            "n_steps:2^31" => v["public_input"]["n_steps"] = json!(1u64 << 31),
            "last_bound:100" => v["proof_parameters"]["stark"]["fri"]["last_layer_degree_bound"] = json!(100),
            "page:1" => { let n = v["public_input"]["public_memory"].as_array().unwrap().len(); v["public_input"]["public_memory"][n - 1]["page"] = json!(1); }
            // the padding cell is the first entry of the list as written, whatever page it is on and wherever the main page starts
            // a continuous page at the top of the 32-bit address range: ending exactly at 2^32 - 1 is a page; running past it is not consecutive
            "page:top32" => { let n = v["public_input"]["public_memory"].as_array().unwrap().len(); let e = &mut v["public_input"]["public_memory"][n - 1]; e["page"] = json!(1); e["address"] = json!(4294967295u64); }
            "page:wrap32" => { let n = v["public_input"]["public_memory"].as_array().unwrap().len();
                { let e = &mut v["public_input"]["public_memory"][n - 2]; e["page"] = json!(1); e["address"] = json!(4294967295u64); }
                { let e = &mut v["public_input"]["public_memory"][n - 1]; e["page"] = json!(1); e["address"] = json!(0u64); } }
            "page:first" => { v["public_input"]["public_memory"][0]["page"] = json!(1); }
            "page:last-listed-first" => { let m = v["public_input"]["public_memory"].as_array_mut().unwrap(); let mut e = m.pop().unwrap(); e["page"] = json!(1); m.insert(0, e); }
            "memory:rotate" => { let m = v["public_input"]["public_memory"].as_array_mut().unwrap(); let e = m.pop().unwrap(); m.insert(0, e); }
            "memory:swap01" => { v["public_input"]["public_memory"].as_array_mut().unwrap().swap(0, 1); }
            "rc" => { v["public_input"]["rc_min"] = json!(7); v["public_input"]["rc_max"] = json!(65535); }
            "nvf" => v["proof_parameters"]["n_verifier_friendly_commitment_layers"] = json!(17),
            "dyn:value" => { if let Some(o) = v["public_input"]["dynamic_params"].as_object_mut() { let k = o.keys().nth(rng.below(o.len() as u64) as usize).unwrap().clone(); o[&k] = json!(9); } else { applicable = false; } }
            // the sizes and column counts of a dynamic-layout proof come from the file's own parameters
            k if k.starts_with("dyn:cpu_step=") || k.starts_with("dyn:cols_") => { if let Some(o) = v["public_input"]["dynamic_params"].as_object_mut() {
                match k { "dyn:cpu_step=8" => o["cpu_component_step"] = json!(8), "dyn:cpu_step=3" => o["cpu_component_step"] = json!(3), "dyn:cpu_step=0" => o["cpu_component_step"] = json!(0),
                          "dyn:cols_first+1" => { let c = o["num_columns_first"].as_u64().unwrap(); o["num_columns_first"] = json!(c + 1); }
                          _ => { let c = o["num_columns_second"].as_u64().unwrap(); o["num_columns_second"] = json!(c + 1); } }
            } else { applicable = false; } }
            // more (or fewer) FRI layer commitments than the step list implies: the proof carries what the file says
            "dup:fri_commit" => { let c: Vec<usize> = find("STARK/FRI/Commitment/Layer").into_iter().filter(|i| ann[*i].contains("Commitment: Hash")).collect();
                if let Some(i) = pick(&c, &mut rng) { let l = bump(&ann[i]); v["annotations"].as_array_mut().unwrap().insert(i + 1, json!(l)); } else { applicable = false; } }
            "steps:drop-last" => { v["proof_parameters"]["stark"]["fri"]["fri_step_list"].as_array_mut().unwrap().pop(); }
            "steps:append" => { v["proof_parameters"]["stark"]["fri"]["fri_step_list"].as_array_mut().unwrap().push(json!(1)); }
            "dyn:remove" => { if let Some(o) = v["public_input"]["dynamic_params"].as_object_mut() { let k = o.keys().nth(rng.below(o.len() as u64) as usize).unwrap().clone(); o.remove(&k); } else { applicable = false; } }
            "layout:unknown" => v["public_input"]["layout"] = json!("all_cairo"),
            o => panic!("edit {o}"),
        }
        if !applicable { return None; }
        let text = v.to_string();
        Some((f.path.clone(), kind.clone(), compare(&text)))
    });
    let (mut n, mut bad) = (0u64, 0u64);
    let mut seen = std::collections::BTreeSet::new();
    for r in res.into_iter().flatten() {
        n += 1;
        if let (file, kind, Some((class, why))) = r {
            bad += 1;
            let key = format!("{class}:{kind}");
            let first = seen.insert(key.clone());
            out.line(&json!({"ok": false, "kind": "file", "class": class, "edit": kind, "file": file, "why": why, "key": key, "first": first}));
        }
    }
    out.line(&json!({"summary": true, "cases": n, "bad": bad}));
}
