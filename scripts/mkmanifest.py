#!/usr/bin/env python3
"""Regenerate /verif/MANIFEST.json from the table below and validate it against the schema."""
import json, os, subprocess, sys
ROOT = os.path.dirname(os.path.dirname(os.path.abspath(__file__)))

def repo_hook_commits():
    try:
        out = subprocess.run(["git", "-C", "/repo", "log", "--format=%H %s"], capture_output=True, text=True).stdout
        return [l.split()[0] for l in out.splitlines() if " verif hooks:" in l][::-1]
    except Exception:
        return []

CHECKS = {
    "C12": dict(
        technique="TLC exhaustive enumeration at the real field (Java BigInteger override) + TLC trace validation of every StarkDomains::new result",
        level="model_checking",
        text="Complete: all 18721 (t,c) pairs are model-checked on the spec (exact orders, generator relation, sizes) and the "
             "real StarkDomains::new output for every pair is validated by TLC against the spec's values and the order predicates.",
        note="Trusted: BigField.class modular arithmetic (java.math.BigInteger), cross-validated by MC_BigFieldCheck.",
        ref="6/C12"),
}
NOT_YET = {}

def main():
    props = [json.loads(l) for l in open(os.path.join(ROOT, "properties.jsonl"))]
    checks = []
    na = []
    extra_na = json.load(open(os.path.join(ROOT, "scripts", "not_applicable.json"))) if os.path.exists(os.path.join(ROOT, "scripts", "not_applicable.json")) else {}
    for p in props:
        pid = p["id"]
        if pid in CHECKS:
            c = CHECKS[pid]
            checks.append({
                "property_id": pid,
                "quick_cmd": f"./check {pid} quick",
                "thorough_cmd": f"./check {pid} thorough",
                "evidence_file": f"/verif/evidence/{pid}.json",
                "replay_cmd_template": f"./check {pid} quick --replay {{path}}",
                "engine": "tla-model-based",
                "level_claimed": {"category": c["level"], "text": c["text"], "design_ref": "DESIGN.md section " + c["ref"]},
                "level_note": c["note"],
                "technique": c["technique"],
            })
        else:
            na.append({"property_id": pid, "reason": extra_na.get(pid, "check under construction in this session: the specification module exists or is planned (DESIGN.md section 6) but no command is registered yet")})
    m = {
        "version": 1,
        "setup_cmd": "./scripts/setup.sh",
        "hooks": {
            "guard": "--cfg swiftness_verif",
            "enable": "harness/.cargo/config.toml sets rustflags = [\"--cfg\", \"swiftness_verif\", \"--check-cfg\", \"cfg(swiftness_verif)\"]; the harness path-depends on /repo/crates/* and /repo/proof_parser, so every check rebuilds from /repo's working tree with hooks on",
            "baseline_off_cmd": "cd /repo && cargo test --workspace --no-fail-fast --offline",
            "source_commits": repo_hook_commits(),
            "add_only": True,
        },
        "engines": [{
            "name": "tla-model-based",
            "path": "/verif/check",
            "serves_properties": [c["property_id"] for c in checks],
            "kind_free_text": "explicit TLA+ specification (spec/*.tla) checked with TLC; bound to the Rust code by replaying TLC-generated behaviours into the real functions and by validating hook-recorded traces of the real code against the specification (real-field arithmetic recomputed by TLC through a BigInteger module override)",
        }],
        "checks": checks,
        "not_applicable": na,
        "notes": "See DESIGN.md. known_findings.json lists genuine defects recorded or fixed.",
    }
    with open(os.path.join(ROOT, "MANIFEST.json"), "w") as f:
        json.dump(m, f, indent=1)
    try:
        import jsonschema
        jsonschema.validate(m, json.load(open("/root/.vp/MANIFEST.schema.json")))
        print("MANIFEST.json valid;", len(checks), "checks,", len(na), "not_applicable")
    except ImportError:
        print("jsonschema not available; wrote MANIFEST.json unvalidated")

if __name__ == "__main__":
    main()
