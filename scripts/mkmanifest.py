#!/usr/bin/env python3
"""Regenerate /verif/MANIFEST.json from the table below and validate it against the schema."""
import json, os, subprocess, sys
ROOT = os.path.dirname(os.path.dirname(os.path.abspath(__file__)))

def repo_hook_commits():
    try:
        out = subprocess.run(["git", "-C", "/repo", "log", "--format=%H %s"], capture_output=True, text=True).stdout
        return [l.split()[0] for l in out.splitlines() if " verif hooks:" in l][::-1]
    except Exception:
        return []

CHECKS = {
    "C01": dict(
        technique="TLC model checking of the protocol-level soundness model (Stark.tla: prover strategies x declarations x luck events, guard removal counterexamples); TLC-generated recipes instantiated by an in-harness STARK prover for a toy AIR and run on the real StarkProof::verify; TLC trace validation of whole-verifier traces (Trace_Stark)",
        level="model_checking",
        text="The model shows that acceptance without a satisfying trace needs a negligible event exactly when the four guards hold; every strategy x declaration is executed against the real generic verifier on random configurations and must give the model's verdict; every recorded run must be a behaviour of the whole-verifier trace specification (strict Fiat-Shamir order, OODS pair = opened pair, ConfigOK at 'config ok', acceptance only after every decommitment).",
        note="The STARK soundness theorem's probability bound is not re-proved; the toy AIR drives the generic verifier code, the seven real layouts are bound by C03/C16.",
        ref="6/C01"),
    "C02": dict(
        technique="TLC check of a data-flow model of the protocol (every position class bound by a check's transitive support or a length guard); mutation of every position of accepted proofs (toy: exhaustive; shipped: sampled per class in quick, exhaustive in thorough) replayed on the real verifier",
        level="model_checking",
        text="Every position class x mutation kind of the model is exercised on real accepted proofs and the mutant must not be accepted; 'append' is the only tolerated kind.",
        note="One known finding: n_queries+1 whose extra sample collides (known_findings.json). Hash collision resistance; PoW nonce replacement passes with probability 2^-n_bits.",
        ref="6/C02"),
    "C03": dict(
        technique="TLC enumeration of the (build, proof kind) acceptance matrix; every shipped proof + fixture verified as each of 7 layouts under 2 (8 in thorough) hash/Stone builds; TLC trace validation incl. equality with Stone's logged challenges",
        level="model_checking",
        text="Verdict per (proof, build, layout) must equal the model; returned hashes = Pedersen chains of the file's public memory read independently; serde round trip; traces validated by Trace_Stark.",
        note="The 25 files are taken to be honest Stone outputs; exhaustive over the finite set only in the thorough tier (all 8 builds).",
        ref="6/C03"),
    "C13": dict(
        technique="TLC exhaustive pairwise injectivity check of the seed term over a small space (both Stone versions); terms replayed on the real get_hash; field-by-field perturbation of the shipped public inputs with partition + reference-value check",
        level="model_checking",
        text="Seed term equality <=> public input equality on all 389k ordered pairs per Stone version; the real get_hash equals the term on every small input and separates every perturbed real input.",
        note="Pedersen/Poseidon as free constructors.",
        ref="6/C13"),
    "C14": dict(
        technique="TLC evaluation of the validity predicate (integer reading) and of the main-page rule on a labelled deviation catalogue; labels instantiated per real layout and replayed on validate_public_input / verify_public_input",
        level="model_checking",
        text="Each deviation label has the model's verdict on all 7 layouts; main-page perturbations are rejected or hashed by address; returned hashes re-computed independently.",
        note="Layout row ratios / cells per instance from the Cairo layout definitions; dynamic layout: deviations that change the trace size are out of the model.",
        ref="6/C14"),
    "C17": dict(
        technique="TLC check of the loop-bound model (declared-number magnitudes, guard removal counterexamples); extreme-value recipes on accepted proofs run on the real verifier under an event budget (fuel in the hooks) and a wall clock",
        level="model_checking",
        text="Every loop is bounded by supplied data, a constant, or a guarded declared number on the model; ~14k recipes per build finish within 40 events per proof value.",
        note="Work counted in hooked events; time/memory measured.",
        ref="6/C17"),
    "C18": dict(
        technique="TLC exhaustive check of the shape-level totality model (guards establish every access precondition; guard removal counterexamples); structural / extreme-value recipes on accepted proofs run on verify, StarkConfig::validate, validate_public_input, verify_public_input under catch_unwind",
        level="model_checking",
        text="1.6M shapes: no undefined access with the six guards; ~14k recipes per build on 7 layouts + toy: no panic.",
        note="panic=unwind harness; aborts would surface as tool errors.",
        ref="6/C18"),
    "C04": dict(
        technique="TLC exhaustive model checking of the decommitment queue machine over symbolic hash terms; TLC-generated instances replayed on vector_commitment_decommit; TLC trace validation of hooked node events",
        level="model_checking",
        text="Every height/friendly-boundary/query-set/single-corruption instance within the bounds is decided on the model (Complete, Binding, ExactWitness) "
             "and replayed on the real function under two hash builds (four in thorough); the recorded node derivations are validated as data flow from leaves+witness to the root.",
        note="Hashes are free constructors (collision resistance assumed); hash values re-computed by the harness with sha3/blake2/starknet-crypto.",
        ref="6/C04"),
    "C05": dict(
        technique="TLC exhaustive model checking of table_decommit (row-hash rule, length guard) over symbolic terms; replay on the real table_decommit; TLC trace validation with Montgomery products recomputed at the real field",
        level="model_checking",
        text="All column counts/heights/friendly counts/query sets/single corruptions within bounds decided on the model and replayed on the real code under two (four) hash builds; traces bind the row-hash rule and the linkage table->vector decommitment.",
        note="Hashes free constructors; multiplication by R injective; BigField.class arithmetic.",
        ref="6/C05"),
    "C06": dict(
        technique="TLC exhaustive check of the folding identity over F_97/F_193 and of the FRI verifier machine over F_257; TLC-generated instances replayed at the real field on fri_commit+fri_verify; TLC trace validation recomputing every fold by the interpolation formula at the real field",
        level="model_checking",
        text="Folding = polynomial folding is exhaustive on small fields (monomial basis, all cosets, enough challenges to decide all); completeness of the layer machine is exhaustive on a configuration catalogue; "
             "each instance and random larger configurations are executed on the real code and every logged fold / coset assembly / last-layer value is re-derived by TLC at the 252-bit field.",
        note="Layer decommitments abstracted by the C04/C05 theorem in the small-field model; independent prover in the harness is trusted glue (cross-validated by acceptance).",
        ref="6/C06"),
    "C07": dict(
        technique="TLC exhaustive model checking of the FRI verifier machine under every single-position corruption and for degree = bound functions; replay at the real field; TLC trace validation (acceptance requires every layer decommitment)",
        level="model_checking",
        text="Each corruption site of each catalogue instance is rejected on the model (committed-value corruptions by the decommitment itself) and on the real fri_verify; the degree clause is exact on the model "
             "(per-query acceptance, some index rejects) and measured at the real field (no acceptance in any trial).",
        note="Soundness error itself is not computed; accidental small-field coincidences for changed evaluation points are excluded from the model invariant and expected rejected at the real field.",
        ref="6/C07"),
    "C08": dict(
        technique="TLC exhaustive enumeration of transcript operation histories with injectivity (term decoding) invariants; every history replayed on the real Transcript with term evaluation and equality-partition check",
        level="model_checking",
        text="All histories up to 4 (5) operations over 11 operation kinds: challenge and digest terms decode to exactly the absorbed prefix and counter; the real Transcript reproduces digest, counter and every challenge.",
        note="Poseidon modelled as a free constructor; evaluated by starknet-crypto in the harness.",
        ref="6/C08"),
    "C09": dict(
        technique="TLC exhaustive check of the threshold/leading-zero equivalence over all difficulties and zero-prefix lengths; TLC trace validation of hooked verify_pow / commit runs at byte level",
        level="model_checking",
        text="The code's integer threshold equals 'n leading zero bits' for all n in 0..128 and all prefix lengths; real runs (both PoW hashes) are re-derived byte by byte by TLC, including the order check-then-absorb.",
        note="Keccak/Blake2s values re-computed by the harness (sha3, blake2 crates).",
        ref="6/C09"),
    "C10": dict(
        technique="TLC exhaustive small-alphabet check of the sampling rule; TLC trace validation of real generate_queries / queries_to_points with big-natural and real-field recomputation",
        level="model_checking",
        text="For every domain size 2^1..2^64 and query counts incl. above the domain size, the squeezes consumed, the reduction, sorting, de-duplication and the index->point map of the real code are re-derived by TLC.",
        note="Poseidon outputs taken from the code's squeeze events and re-computed by the harness.",
        ref="6/C10"),
    "C11": dict(
        technique="TLC check Validate(code-shaped, field arithmetic) <=> ConfigOK(property, integers) over a deviation catalogue with wrap-around values; replay on the real StarkConfig::validate; Apalache proves the equivalence for all field elements on the 3-layer shape",
        level="model_checking",
        text="Every single (pairs in thorough) deviation from an honest configuration incl. consistent re-declarations is decided by the property predicate and must equal the real validate's verdict; the unbounded instance removes the grid for one FRI shape.",
        note="Model prime 12289 stands for the real prime for wrap-around offsets; Apalache instance fixes n_layers = 3.",
        ref="6/C11"),
    "C12": dict(
        technique="TLC exhaustive enumeration at the real field (Java BigInteger override) + TLC trace validation of every StarkDomains::new result",
        level="model_checking",
        text="Complete: all 18721 (t,c) pairs are model-checked on the spec (exact orders, generator relation, sizes) and the "
             "real StarkDomains::new output for every pair is validated by TLC against the spec's values and the order predicates.",
        note="Trusted: BigField.class modular arithmetic (java.math.BigInteger), cross-validated by MC_BigFieldCheck.",
        ref="6/C12"),
}
NOT_YET = {}

def main():
    props = [json.loads(l) for l in open(os.path.join(ROOT, "properties.jsonl"))]
    checks = []
    na = []
    extra_na = json.load(open(os.path.join(ROOT, "scripts", "not_applicable.json"))) if os.path.exists(os.path.join(ROOT, "scripts", "not_applicable.json")) else {}
    for p in props:
        pid = p["id"]
        if pid in CHECKS:
            c = CHECKS[pid]
            checks.append({
                "property_id": pid,
                "quick_cmd": f"./check {pid} quick",
                "thorough_cmd": f"./check {pid} thorough",
                "evidence_file": f"/verif/evidence/{pid}.json",
                "replay_cmd_template": f"./check {pid} quick --replay {{path}}",
                "engine": "tla-model-based",
                "level_claimed": {"category": c["level"], "text": c["text"], "design_ref": "DESIGN.md section " + c["ref"]},
                "level_note": c["note"],
                "technique": c["technique"],
            })
        else:
            na.append({"property_id": pid, "reason": extra_na.get(pid, "check under construction in this session: the specification module exists or is planned (DESIGN.md section 6) but no command is registered yet")})
    m = {
        "version": 1,
        "setup_cmd": "./scripts/setup.sh",
        "hooks": {
            "guard": "--cfg swiftness_verif",
            "enable": "harness/.cargo/config.toml sets rustflags = [\"--cfg\", \"swiftness_verif\", \"--check-cfg\", \"cfg(swiftness_verif)\"]; the harness path-depends on /repo/crates/* and /repo/proof_parser, so every check rebuilds from /repo's working tree with hooks on",
            "baseline_off_cmd": "cd /repo && cargo test --workspace --no-fail-fast --offline",
            "source_commits": repo_hook_commits(),
            "add_only": True,
        },
        "engines": [{
            "name": "tla-model-based",
            "path": "/verif/check",
            "serves_properties": [c["property_id"] for c in checks],
            "kind_free_text": "explicit TLA+ specification (spec/*.tla) checked with TLC; bound to the Rust code by replaying TLC-generated behaviours into the real functions and by validating hook-recorded traces of the real code against the specification (real-field arithmetic recomputed by TLC through a BigInteger module override)",
        }],
        "checks": checks,
        "not_applicable": na,
        "notes": "See DESIGN.md. known_findings.json lists genuine defects recorded or fixed.",
    }
    with open(os.path.join(ROOT, "MANIFEST.json"), "w") as f:
        json.dump(m, f, indent=1)
    try:
        import jsonschema
        jsonschema.validate(m, json.load(open("/root/.vp/MANIFEST.schema.json")))
        print("MANIFEST.json valid;", len(checks), "checks,", len(na), "not_applicable")
    except ImportError:
        print("jsonschema not available; wrote MANIFEST.json unvalidated")

if __name__ == "__main__":
    main()
