//! Helper crate for demonstrations involving the proof parser and the CLI conversion.
//! `convert(text)` is what the CLI does before verifying: parse the proof file, convert it to the verifier's type.
#[path = "../../cli/src/transform.rs"]
pub mod transform;
pub use transform::TransformTo;
pub fn convert(text: &str) -> anyhow_like::Result<swiftness_stark::types::StarkProof> {
    let parsed = swiftness_proof_parser::parse(text.to_string()).map_err(|e| e.to_string())?;
    Ok(parsed.transform_to())
}
pub mod anyhow_like { pub type Result<T> = std::result::Result<T, String>; }
