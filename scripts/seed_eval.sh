#!/bin/bash
# usage: seed_eval.sh <seed id (directory name under /verif/seeded)> <seed_out dir> <check id>...
# Confirms the seeded change in a scratch worktree, stores it under /verif/seeded/<id>/, applies it to /repo,
# runs the given checks (quick), records their verdicts, and restores /repo.
set -uo pipefail
ID="$1"; SRC="$2"; shift 2
cd /verif
D=seeded/$ID; mkdir -p $D
cp "$SRC"/patch.diff "$SRC"/meta.json "$SRC"/demo_cmd.txt $D/ 2>/dev/null
cp "$SRC"/*.rs $D/ 2>/dev/null
if ! ./scripts/seed_verify.sh "$SRC" > $D/confirm.log 2>&1; then echo "NOT CONFIRMED: $ID"; tail -5 $D/confirm.log; exit 1; fi
echo "confirmed: $ID"
[ -z "$(git -C /repo status --porcelain)" ] || { echo "/repo not clean"; exit 2; }
git -C /repo apply "/verif/$D/patch.diff" || { echo "patch does not apply to /repo"; exit 2; }
RES=""
for c in "$@"; do
  ./check $c quick > $D/check_$c.log 2>&1; rc=$?
  n=$(grep -c "^VIOLATION" $D/check_$c.log)
  first=$(grep "^VIOLATION" $D/check_$c.log | head -1 | cut -c1-300)
  echo "  $c: exit=$rc violations=$n  $first"
  RES="$RES $c:exit=$rc:violations=$n"
done
git -C /repo checkout -- . ; git -C /repo clean -qfd -- crates proof_parser cli; git -C /repo status --short | head -3
echo "$RES" > $D/result.txt
