#!/bin/bash
# Confirm a seeded change independently: in a fresh scratch worktree of /repo (outside /repo and /verif),
#  (1) the demonstration passes on the unchanged tree, (2) with the patch applied the workspace builds and the
#  45 baseline tests pass, (3) the demonstration fails.  usage: seed_verify.sh <seed_out_dir>
set -uo pipefail
SRC="$1"
W=${VERIFY_SEED_DIR:-/tmp/verify_seed}
if [ ! -d "$W" ]; then git -C /repo worktree add -q "$W" HEAD || exit 2; fi
cd "$W" || exit 2
git checkout -q -- . ; git clean -qfd -e target
git checkout -q --detach "$(git -C /repo rev-parse HEAD)" || exit 2
CMD=$(grep -v '^\s*$' "$SRC/demo_cmd.txt" | grep cargo | head -1 | sed 's/^[#$ ]*//')
PKG=$(echo "$CMD" | sed -n 's/.*-p \([a-z_]*\).*/\1/p')
TEST=$(echo "$CMD" | sed -n 's/.*--test \([A-Za-z0-9_]*\).*/\1/p')
CRATE=${PKG#swiftness_}
DEMO=$(ls "$SRC"/*.rs | head -1)
PPDEMO=""
if echo "$CMD" | grep -q pp_demo; then
  # parser / CLI demonstrations run in the helper crate pp_demo (offline vendor dir, transform.rs included by path)
  PPDEMO=1; TEST=${TEST:-seeded_demo}
  rm -rf pp_demo; cp -r /verif/scripts/pp_demo pp_demo; mkdir -p pp_demo/tests; cp "$DEMO" pp_demo/tests/$TEST.rs
  cp /repo/Cargo.lock pp_demo/Cargo.lock
  RUN="env -C pp_demo cargo test --offline --test $TEST"
  TESTDIR=pp_demo/tests
else
LIBDEMO=""
if [ -n "$PKG" ] && [ -z "$TEST" ] && echo "$CMD" | grep -q -- '--lib'; then
  # demonstration is a #[cfg(test)] module of the crate itself (needs the crate's private test fixtures)
  LIBDEMO=$(echo "$CMD" | sed -n 's/.*--lib \([A-Za-z0-9_]*\).*/\1/p'); TEST=$LIBDEMO
fi
[ -n "$PKG" ] && [ -n "$TEST" ] || { echo "cannot parse demo command: $CMD"; exit 2; }
if [ -n "$LIBDEMO" ]; then
  cp "$DEMO" crates/$CRATE/src/$LIBDEMO.rs; printf '\n#[cfg(test)]\nmod %s;\n' "$LIBDEMO" >> crates/$CRATE/src/lib.rs
  RUN="cargo test -p $PKG --offline --lib $LIBDEMO"
  TESTDIR=crates/$CRATE/src/$LIBDEMO.rs
else
mkdir -p crates/$CRATE/tests && cp "$DEMO" crates/$CRATE/tests/$TEST.rs
for extra in "$SRC"/*.txt "$SRC"/*.json; do case "$(basename $extra)" in demo_cmd.txt|meta.json) ;; *) [ -f "$extra" ] && cp "$extra" crates/$CRATE/tests/ ;; esac; done
RUN="cargo test -p $PKG --offline --test $TEST $(echo "$CMD" | grep -o -- '--no-default-features' || true) $(echo "$CMD" | grep -o -- '--features [A-Za-z0-9_,]*' || true)"
TESTDIR=crates/$CRATE/tests
fi
fi
echo "== demo on the unchanged tree: $RUN"
if $RUN > /tmp/verify_seed${LANE_TAG:-}_1.log 2>&1; then echo "   passes"; else echo "   FAILS on the unchanged tree"; tail -20 /tmp/verify_seed${LANE_TAG:-}_1.log; exit 1; fi
git apply "$SRC/patch.diff" || { echo "patch does not apply"; exit 1; }
echo "== demo with the change"
if $RUN > /tmp/verify_seed${LANE_TAG:-}_2.log 2>&1; then echo "   still passes: not a demonstration"; exit 1; else grep -E "test result|panicked" /tmp/verify_seed${LANE_TAG:-}_2.log | head -3; fi
rm -rf "$TESTDIR"; [ -n "$PPDEMO" ] && rm -rf pp_demo
[ -n "${LIBDEMO:-}" ] && { head -n -3 crates/$CRATE/src/lib.rs > /tmp/verify_seed${LANE_TAG:-}_lib.rs && cp /tmp/verify_seed${LANE_TAG:-}_lib.rs crates/$CRATE/src/lib.rs; }
echo "== baseline suite with the change"
cargo test --workspace --no-fail-fast --offline > /tmp/verify_seed${LANE_TAG:-}_3.log 2>&1
PASSED=$(grep -E "^test result: ok" /tmp/verify_seed${LANE_TAG:-}_3.log | sed 's/.*ok\. \([0-9]*\) passed.*/\1/' | paste -sd+ | bc)
FAILED=$(grep -cE "^test result: FAILED|^error" /tmp/verify_seed${LANE_TAG:-}_3.log)
echo "   passed=$PASSED failed_or_error_lines=$FAILED"
git checkout -q -- . ; git clean -qfd -e target
[ "$PASSED" = "45" ] && [ "$FAILED" = "0" ] || exit 1
echo "CONFIRMED"
