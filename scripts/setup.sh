#!/bin/bash
# Offline setup after a fresh restore: vendor directory, BigField.class, spec parse check, default harness build.
set -euo pipefail
cd "$(dirname "$0")/.."
export CARGO_NET_OFFLINE=true
./scripts/mkvendor.sh
( cd spec && javac -cp /opt/veriftools/tla/tla2tools.jar BigField.java )
mkdir -p work evidence
# parse every module (fast; catches a broken spec before any check runs)
( cd spec && for f in *.tla; do
    java -cp /opt/veriftools/tla/tla2tools.jar:/opt/veriftools/tla/CommunityModules-deps.jar tla2sany.SANY "$f" > ../work/sany.log 2>&1 || { echo "SANY failed on $f"; cat ../work/sany.log; exit 1; }
  done )
# validate the BigInteger override against pure TLA+ definitions
python3 - <<'PY'
import sys
sys.path.insert(0, "lib")
import vf
res = vf.tlc("MC_BigFieldCheck", workers=4, timeout=600)
if not res.ok:
    print(res.out[-3000:]); sys.exit(1)
print("MC_BigFieldCheck ok:", res.distinct, "states")
PY
# default harness builds (the other hash/stone combinations are built on demand)
( cd harness && cargo build --release --offline --features keccak_160_lsb,stone5 --target-dir target/keccak_160_lsb-stone5 2>&1 | tail -2 )
echo "setup done"
