#!/bin/bash
# usage: seed_eval_ns.sh <lane> <seed id> <seed_out dir> <check id>...
# Same as seed_eval.sh, but the patched tree is a scratch worktree of /repo bind-mounted over /repo in a private mount
# namespace (and a copy of /verif over /verif), so that several seeded changes can be evaluated at the same time and /repo
# itself stays clean.  The checks see the patched tree at the path /repo, exactly as with `git -C /repo apply`.
set -uo pipefail
LANE="$1"; ID="$2"; SRC="$3"; shift 3
L=/tmp/lane$LANE
mkdir -p $L
if [ ! -d $L/repo ]; then git -C /repo worktree add -q --detach $L/repo "$(git -C /repo rev-parse HEAD)" || exit 2; fi
git -C $L/repo checkout -q -- . ; git -C $L/repo clean -qfd -- crates proof_parser cli
git -C $L/repo checkout -q --detach "$(git -C /repo rev-parse HEAD)" || exit 2
rsync -a --delete --exclude work --exclude 'evidence/replays' --exclude seeded /verif/ $L/verif/
D=$L/verif/seeded/$ID; mkdir -p $D
cp "$SRC"/patch.diff "$SRC"/meta.json "$SRC"/demo_cmd.txt $D/ 2>/dev/null
cp "$SRC"/*.rs $D/ 2>/dev/null
if ! VERIFY_SEED_DIR=/tmp/verify_seed_lane$LANE LANE_TAG=$LANE /verif/scripts/seed_verify.sh "$SRC" > $D/confirm.log 2>&1; then echo "NOT CONFIRMED: $ID"; tail -5 $D/confirm.log; mkdir -p /verif/seeded/$ID; cp -r $D/. /verif/seeded/$ID/; exit 1; fi
echo "confirmed: $ID"
git -C $L/repo apply "$D/patch.diff" || { echo "patch does not apply"; exit 2; }
CHECKS="$*" ID="$ID" L="$L" unshare -m bash -c '
  mount --bind $L/repo /repo && mount --bind $L/verif /verif || exit 9
  cd /verif; RES=""
  for c in $CHECKS; do
    ./check $c quick > seeded/$ID/check_$c.log 2>&1; rc=$?
    n=$(grep -c "^VIOLATION" seeded/$ID/check_$c.log)
    first=$(grep "^VIOLATION" seeded/$ID/check_$c.log | head -1 | cut -c1-300)
    echo "  $ID $c: exit=$rc violations=$n  $first"
    RES="$RES $c:exit=$rc:violations=$n"
  done
  echo "$RES" > seeded/$ID/result.txt'
git -C $L/repo checkout -q -- . ; git -C $L/repo clean -qfd -- crates proof_parser cli
mkdir -p /verif/seeded/$ID; cp -r $D/. /verif/seeded/$ID/
