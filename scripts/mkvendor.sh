#!/bin/bash
# Assemble a cargo "directory source" under /verif/vendor from the unpacked registry sources
# already present in ~/.cargo/registry (offline; nothing is fetched).
set -euo pipefail
V=/verif/vendor
REG=$HOME/.cargo/registry
if [ -f "$V/.complete" ]; then exit 0; fi
rm -rf "$V"; mkdir -p "$V"
add() { # add <srcdir>
  local d="$1"; local name; name=$(basename "$d")
  [ -d "$V/$name" ] && return 0
  cp -r "$d" "$V/$name"
  local crate; crate=$(ls $REG/cache/*/"$name".crate 2>/dev/null | head -1 || true)
  local sum=""
  if [ -n "$crate" ]; then sum=$(sha256sum "$crate" | cut -d' ' -f1); fi
  printf '{"files":{},"package":"%s"}' "$sum" > "$V/$name/.cargo-checksum.json"
}
# everything the repository's own lockfile needs (registry of the repo toolchain)
for d in $REG/src/*-d8f576cf6a597a10/*; do add "$d"; done
# extras for /repo/proof_parser (anyhow, regex) from the other registry
for n in anyhow-1.0.98 regex-1.13.1 regex-automata-0.4.18 regex-syntax-0.8.11 aho-corasick-1.1.5 memchr-2.7.5; do
  add $REG/src/*-093457b7fbcbc003/$n
done
touch "$V/.complete"
echo "vendor assembled: $(ls $V | wc -l) crates"
